"""C10 -- The key id in a signature always names the key that produced the MAC.

Model: coq/Model/SignRace.v over coq/Model/Sched.v; theorems: coq/Props/C10.v.
Implementation: the REAL signing futures (WireServerClient::get_goalstate / get_shared_config /
send_telemetry_data, ImdsClient::get_imds_instance_info) polled by hand against mock hosts, and the
REAL listener (ProxyServer::start -> handle_request_with_signature) with a keeper operation injected
at every scheduler turn, through harness/src/bin/c10.rs.

What is compared on every run
  * the number of key-keeper actor round trips each call site makes per signing, with
    length (route_reads r) of the model  (2 -> 1 or 2 -> 3 is a correspondence event);
  * schedule by schedule, the (announced id, key that verifies the MAC) pair observed at the mock
    host, with the model's result for the same schedule (vm_compute of SignRace.sim);
  * the class predicate (a SetKey processed between the two reads) computed from the schedule in
    Python, with SignRace.setkey_between_reads of the model's result.
The property itself (Python, from the property text) is evaluated on every request the mock hosts
received: the MAC is recomputed with hmac/hashlib under the key REGISTERED FOR THE ANNOUNCED ID over
the canonical string rebuilt from the received bytes; the key must have been in force during the
signing operation."""
import hashlib
import hmac
import itertools
import json
import os
import shutil
import time

import vplib
from checks.common import verdict

AUTH = "x-ms-azure-host-authorization"
ROUTES = {  # driver route name -> constructor of SignRace.route
    "goalstate": "WsGoalState",
    "sharedconfig": "WsSharedConfig",
    "imds": "ImdsInstanceInfo",
    "telemetry": "WsTelemetry",
    "proxy": "ProxiedRequest",
}
KNOWN_CLASS = "setkey_between_reads"


# ----------------------------------------------------------------------------------------
# the mock host's verification (independent of the agent's code)
# ----------------------------------------------------------------------------------------
def canonical_string(raw):
    """StringToSign of common/hyper_client.rs rebuilt from the bytes the host received:
    method LF body LF (lower-cased header name ':' trimmed value LF, sorted, authorization header
    excluded) path LF canonicalized parameters (lower-cased key, sorted by key+value, joined by &)."""
    head, _, body = raw.partition("\r\n\r\n")
    lines = head.split("\r\n")
    method, target, _ = lines[0].split(" ", 2)
    hdrs, auth = {}, []
    for l in lines[1:]:
        k, _, v = l.partition(":")
        if k.lower() == AUTH:
            auth.append(v.strip())
        else:
            hdrs[k.lower()] = v.strip()
    path, _, query = target.partition("?")
    pm = {}
    for p in query.split("&"):
        k, _, v = p.partition("=")
        if k:
            pm[k.lower() + v] = (k.lower(), v)
    params = "&".join((kk if pm[kk][1] == "" else "%s=%s" % pm[kk]) for kk in sorted(pm))
    s = method + "\n" + body + "\n" + "".join("%s:%s\n" % (k, hdrs[k]) for k in sorted(hdrs)) + path + "\n" + params
    return s.encode("utf-8"), auth


def is_hex(v):
    return len(v) % 2 == 0 and all(c in "0123456789abcdefABCDEF" for c in v)


def observe_all(raw, keys):
    """one entry per authorization header VALUE the host received, in wire order:
    (announced guid, index of the registered key whose secret verifies the MAC or None,
     index of the key registered under the announced guid or None)"""
    canon, auths = canonical_string(raw)
    out = []
    for auth in auths:
        parts = auth.split(" ")
        if len(parts) != 3 or parts[0] != "Azure-HMAC-SHA256":
            out.append(("malformed:" + auth, None, None))
            continue
        guid, sig = parts[1], parts[2]
        mac_ix = None
        for ix, (g, kv) in keys.items():
            if is_hex(kv) and hmac.new(bytes.fromhex(kv), canon, hashlib.sha256).hexdigest() == sig:
                mac_ix = ix
        ann_ix = None
        for ix, (g, kv) in keys.items():
            if g == guid:
                ann_ix = ix
        out.append((guid, mac_ix, ann_ix))
    return out


def observe(raw, keys):
    """the first authorization header of the request, None when there is none"""
    o = observe_all(raw, keys)
    return o[0] if o else None


BAD = 8     # index of the key whose secret is not hex (compute_signature rejects it)
USABLE = "(fun v => match v with [x] => N.ltb x 108 | _ => false end)"


def fresh_keys(rng, n):
    ks = {}
    for i in range(1, n + 1):
        g = "%08x-%04x-%04x-%04x-%012x" % (rng.getrandbits(32), rng.getrandbits(16), rng.getrandbits(16), rng.getrandbits(16), rng.getrandbits(48))
        # key ids are OPAQUE strings issued by the host (the model compares them byte for byte): besides the
        # usual lower-case guid, upper case, mixed case, no dashes, and non-guid tokens (no dot -- `set_extension("key")` would cut the id at its last dot --, file-name / URL-path /
        # header safe: the id is also <id>.key and a path segment of the attestation URL)
        shape = rng.choice(["lower", "upper", "mixed", "mixed", "nodash", "token"])
        if shape == "upper":
            g = g.upper()
        elif shape == "mixed":
            g = "".join(c.upper() if rng.random() < 0.5 else c for c in g)
            if g == g.lower():
                g = "A" + g[1:]
        elif shape == "nodash":
            g = g.replace("-", "").upper()
        elif shape == "token":
            g = "Key_%s_%d-%s" % ("".join(rng.choice("ABCDEFGHxyz") for _ in range(6)), i, "".join(rng.choice("0123456789abcdefXYZ") for _ in range(8)))
        v = "%064x" % rng.getrandbits(256)
        if rng.random() < 0.3:
            v = v.upper()       # hex::decode accepts both cases; the secret's spelling is the host's too
        ks[i] = (g, v)
    return ks


def add_bad_key(rng, keys):
    # a secret hex::decode rejects: odd length / a non-hex character / trailing blank
    kind = rng.choice(["odd", "char", "blank"])
    v = "%064x" % rng.getrandbits(256)
    keys[BAD] = (fresh_keys(rng, 1)[1][0], {"odd": v[:-1], "char": v[:10] + "g" + v[11:], "blank": v + " "}[kind])
    return keys


def op_json(op, keys):
    return {"clear": True} if op is None else {"set": {"guid": keys[op][0], "key": keys[op][1]}}


def coq_key(ix):
    return "None" if ix is None else "(Some (Key [%d] [%d]))" % (ix, 100 + ix)


# ----------------------------------------------------------------------------------------
# scenarios: pre = keeper ops before any signer exists; schedule items ("p", i) / ("k", op)
# ----------------------------------------------------------------------------------------
def reply_json(rep, keys):
    d = {k: v for k, v in rep.items() if k != "ops"}
    d["ops"] = [op_json(o, keys) for o in rep.get("ops", [])]
    return d


def sched_json(it, keys):
    if it[0] == "p":
        return ["p", it[1]]
    if it[0] == "w":
        return ["w", it[1], it[2]]
    return ["k", op_json(it[1], keys)]


def hand_scenario(routes, pre, schedule, keys, replies=None):
    """schedule items: ("p", i) poll signer i once | ("k", op) keeper op | ("w", i, n) poll signer i
    until its mock host has dealt with n requests.  replies (host faults, single-signer scenarios
    only): for signer 0, the scripted answers; their "ops" are keeper ops the mock runs before it
    answers.  "logical" = the same schedule in the model's terms: all key reads precede the first
    request, so ("w", 0, n) is 3 polls, followed by the mock-side ops of the answers dealt with."""
    replies = replies or []
    logical, emitted = [], 0
    for it in schedule:
        if it[0] == "w":
            logical += [("p", it[1])] * 3
            while emitted < min(it[2], len(replies)):
                logical += [("k", o) for o in replies[emitted].get("ops", [])]
                emitted += 1
        else:
            logical.append(it)
    if replies and emitted == 0:
        logical += [("p", 0)] * 3 + [("k", o) for o in replies[0].get("ops", [])]
        emitted = 1
    signers = [{"route": r} for r in routes]
    if replies:
        signers[0]["replies"] = [reply_json(r, keys) for r in replies]
    return {
        "routes": routes, "pre": pre, "schedule": logical, "keys": keys, "replies": replies, "replies_in_logical": emitted,
        "json": {"kind": "hand", "pre": [op_json(o, keys) for o in pre], "signers": signers,
                 "schedule": [sched_json(it, keys) for it in schedule]},
    }


def model_expr(sc):
    rs = "[" + "; ".join(ROUTES[r] for r in sc["routes"]) + "]"
    ops = [o for o in sc["pre"]] + [it[1] for it in sc["schedule"] if it[0] == "k"]
    sched = [0] * len(sc["pre"]) + [(it[1] + 1) if it[0] == "p" else 0 for it in sc["schedule"]]
    return "sim_routes %s None %s %s (%s%%nat)" % (
        USABLE, rs,
        "[" + "; ".join(coq_key(o) for o in ops) + "]" if ops else "(@nil (option key))",
        "[" + "; ".join(str(x) for x in sched) + "]" if sched else "(@nil nat)")


def model_result(m):
    """parsed (route_outcome, class, epochs) -> (what leaves the agent: (guid index, secret index) |
    None (request without authorization header) | "notsent" (the call fails before sending), class flag)"""
    if m is None:
        return ("unfinished", None)
    out, flag, _ep = m[1]
    if out == "NotSent":
        return ("notsent", flag)
    h = out[1]
    if h is None:
        return (None, flag)
    g, v = h[1]
    return ((g[0], v[0] - 100), flag)


def window_keys(sc, signer):
    """indices of the keys in force at some moment of signer's operation (None = empty slot):
    the content when it is first polled and everything set from then on"""
    cur = None
    for o in sc["pre"]:
        cur = o
    started = False
    w = set()
    for it in sc["schedule"]:
        if it[0] == "p" and it[1] == signer and not started:
            started = True
            w.add(cur)
        elif it[0] == "k":
            cur = it[1]
            if started:
                w.add(cur)
    if not started:
        w.add(cur)
    return w


def class_py(sc, signer, reads):
    """a SetKey (update_key or clear_key) processed between the first and the last key read of this
    signing operation; read j is processed right after the signer's j-th poll"""
    polls = 0
    for it in sc["schedule"]:
        if it[0] == "p" and it[1] == signer:
            polls += 1
        elif it[0] == "k" and 1 <= polls <= reads - 1:
            return True
    return False


def judge(obs, sc, signer, reads, route, window, class_flag, where, req_ix=0):
    """the property, on one observed request; returns a failure dict or None"""
    if obs is None:
        return None          # "not at all" is always allowed by C10
    guid, mac_ix, ann_ix = obs
    keys = sc["keys"]
    case = {"where": where, "route": route, "signer": signer, "request_index": req_ix, "driver_input": sc["json"]}
    if req_ix > 0:
        route = "%s (request #%d of one call)" % (route, req_ix + 1)
    impl = {"announced_guid": guid, "announced_key_index": ann_ix, "mac_verifies_under_key_index": mac_ix,
            "keys": {str(i): {"guid": g} for i, (g, _) in keys.items()}}
    if ann_ix is None:
        return {"case": case, "impl": impl, "kind": "unregistered",
                "why": "%s: the header announces key id %s, which was never latched" % (route, guid)}
    if mac_ix != ann_ix:
        return {"case": case, "impl": impl, "kind": "torn", "class": {KNOWN_CLASS: class_flag, "both_in_window": mac_ix in window and ann_ix in window, "reads": reads},
                "why": "%s: the header announces the id of key #%s but the MAC verifies under %s" % (
                    route, ann_ix, ("the secret of key #%s" % mac_ix) if mac_ix is not None else "no registered key")}
    if ann_ix not in window:
        return {"case": case, "impl": impl, "kind": "stale",
                "why": "%s: signed with key #%s, which was not in force at any moment of the signing operation (in force: %s)" % (route, ann_ix, sorted(str(x) for x in window))}
    return None


def known_filter_factory(ctx):
    entries = [f for f in vplib.known_findings("C10") if KNOWN_CLASS in f.get("class", "")]

    def known_filter(f):
        if not entries or f.get("kind") != "torn":
            return None
        c = f.get("class", {})
        if c.get(KNOWN_CLASS) is True and c.get("both_in_window") is True and c.get("reads", 0) >= 2:
            return "%s [%s]: a SetKey was processed between the two key reads of one signing operation (%s route) -- id of one key, MAC of the other" % (
                entries[0].get("id", "F5"), KNOWN_CLASS, f["case"]["route"])
        return None
    return known_filter


# ----------------------------------------------------------------------------------------
# pairing at LATCH time: the real key keeper poll with prepared key files / host key documents
# ----------------------------------------------------------------------------------------
def key_doc(keys, i):
    return {"authorizationScheme": "Azure-HMAC-SHA256", "guid": keys[i][0], "incarnationId": i, "issued": "2021-05-05T 12:00:00Z", "key": keys[i][1]}


def status_doc(keys, sg, state):
    return {"authorizationScheme": "Azure-HMAC-SHA256", "keyDeliveryMethod": "http", "keyGuid": None if sg is None else keys[sg][0],
            "requiredClaimsHeaderPairs": None, "secureChannelState": state, "version": "1.0"}


def latch_scenario(keys, files, steps):
    """files: [(name index, doc index | "malformed")]: the file <guid of name>.key holds the document of doc;
    steps: [(status keyGuid index | None, state, acquire doc index | None)].
    Returns the driver input and the latch list the key keeper's poll logic performs (loop_poll:
    a key is needed when the state is not disabled and the host names no guid or another one than
    the slot's; the local file named by the host's guid first, else acquire; clear on a change to
    disabled) -- the CONTENT each latch puts into the slot is the model's business (latch_run)."""
    folder = {n: d for n, d in files if d != "malformed"}
    cur, k_state, latches = None, "unknown", []
    for sg, state, acq in steps:
        st = state.lower()
        latch = None
        if st != "disabled" and (sg is None or sg != cur_guid(cur)):
            if sg is not None and sg in folder:
                latch = ("local", sg)
                cur = folder[sg]
            elif acq is not None:
                latch = ("acq", acq)
                folder[acq] = acq
                cur = acq
            else:
                latches.append(None)
                continue
        if k_state != st:
            k_state = st
            if st == "disabled":
                latch = "clear"     # (a disabled poll never latches, so nothing is overwritten here)
                cur = None
        latches.append(latch)
    j = {"kind": "latch",
         "files": [{"name": keys[n][0] + ".key", "raw": "{ \"guid\": "} if d == "malformed" else {"name": keys[n][0] + ".key", "doc": key_doc(keys, d)} for n, d in files],
         "steps": [{"status": status_doc(keys, sg, state), "acquire": None if acq is None else key_doc(keys, acq)} for sg, state, acq in steps],
         "sign": ["goalstate", "imds"]}
    return {"json": j, "files": files, "steps": steps, "latches": latches, "keys": keys}


def cur_guid(cur):
    return cur      # document i carries guid i


def latch_model_expr(sc):
    def ck(i):
        return "(Key [%d] [%d])" % (i, 100 + i)
    f = "[" + "; ".join("([%d], %s)" % (n, ck(d)) for n, d in sc["files"] if d != "malformed") + "]"
    if f == "[]":
        f = "(@nil (bytes * key))"
    ls = []
    for l in sc["latches"]:
        if l is None:
            ls.append("LatchLocal [250]")      # no file of that name: no SetKey
        elif l == "clear":
            ls.append("LatchClear")
        elif l[0] == "local":
            ls.append("LatchLocal [%d]" % l[1])
        else:
            ls.append("LatchAcquired %s" % ck(l[1]))
    return "latch_run %s None [%s]" % (f, "; ".join(ls))


def latch_scenarios(rng, quick):
    out = []
    W, D = "WireServer", "Disabled"
    fixed = [
        ([(2, 1)], [(2, W, None), (2, W, None)]),                      # G2.key holds the document of (G1, K1)
        ([(2, 2)], [(2, W, None), (2, W, None)]),
        ([], [(None, W, 3), (3, W, None)]),                            # first latch from the host
        ([], [(2, W, 3), (2, W, 4)]),                                  # the host names G2 but hands out other documents
        ([(1, 1), (2, 1)], [(1, W, None), (2, W, None), (1, W, None)]),
        ([(2, 1)], [(2, W, 2), (2, W, 2)]),                            # local file wins over the host's document
        ([(2, "malformed")], [(2, W, 2), (2, W, None)]),
        ([(1, 1)], [(1, W, None), (1, D, None), (2, W, 2)]),           # disable clears, re-latch
        ([(1, 1), (2, 2)], [(1, W, None), (2, W, None), (1, W, None)]),   # rotation through local files
        ([(3, 2), (2, 3)], [(2, W, None), (3, W, None), (2, W, None)]),   # two files with swapped contents
        ([(2, 1)], [(2, W, None), (1, W, 4), (4, W, None)]),
        ([(1, 2)], [(None, W, 3), (1, W, None), (2, W, None)]),
    ]
    for files, steps in fixed:
        out.append(latch_scenario(fresh_keys(rng, 4), files, steps))
    for _ in range(30 if quick else 300):
        names = rng.sample([1, 2, 3, 4], rng.randint(0, 3))
        files = [(n, rng.choice([1, 2, 3, 4, n, n, "malformed"])) for n in names]
        steps = []
        for _ in range(rng.randint(1, 4)):
            steps.append((rng.choice([None, 1, 2, 3, 4]), D if rng.random() < 0.15 else rng.choice([W, "WireServerAndImds"]), rng.choice([None, 1, 2, 3, 4, 4])))
        out.append(latch_scenario(fresh_keys(rng, 4), files, steps))
    return out


def coq_eval(ctx, exprs, **kw):
    """vplib.coq_eval on the SignRace model; the .vo files are shared with concurrently running
    checks of other properties (a rebuild of a common dependency while coqc loads it makes coqc
    fail), so a failure is retried after re-making this property's cone"""
    last = None
    for attempt in range(4):
        try:
            return vplib.coq_eval(ctx, "From GPA Require Import SignRace.", exprs, **kw)
        except RuntimeError as e:
            last = e
            ctx.log("model evaluation failed (attempt %d), re-making the cone: %s" % (attempt + 1, str(e)[-300:]))
            time.sleep(2 + 3 * attempt)
            vplib.coq_make(ctx, ["Props/C10.vo"])
    raise last


def run_driver(ctx, exe, lines, env, what):
    """the driver is deterministic; a transient environment failure (port clash with another
    check's listener, overloaded machine) is retried before it is reported"""
    last = None
    for attempt in range(3):
        try:
            out = [json.loads(l) for l in vplib.run_lines(exe, lines, env=env, timeout=1200)]
            if len(out) != len(lines):
                raise RuntimeError("%s: %d results for %d scenarios" % (what, len(out), len(lines)))
            bad = [o for o in out if not o.get("ok")]
            if bad and attempt < 2:
                # scenarios are deterministic: a failure that persists is handed to the verdict logic
                raise RuntimeError("%s: %d scenario(s) not ok, first: %s" % (what, len(bad), bad[0].get("error")))
            return out
        except (RuntimeError, ValueError) as e:
            last = e
            ctx.log("%s failed (attempt %d): %s" % (what, attempt + 1, str(e)[-300:]))
            time.sleep(3)
    raise last


# ----------------------------------------------------------------------------------------
def run(ctx):
    vplib.gen_consts(ctx)
    proofs_ok, detail = vplib.check_proofs(ctx)
    ctx.log("proofs:", proofs_ok, detail[:200])
    bins = vplib.cargo_build(ctx, "harness", ["c10"])
    exe = os.path.join(ctx.scratch, "c10")
    shutil.copy(bins["c10"], exe)      # proxy-agent.json is written beside the executable
    env = {"C10_SCRATCH": os.path.join(ctx.scratch, "run")}
    rng = ctx.rng
    disagreements, failures = [], []

    # ---------------- the model's call-site programs ----------------
    order = ["proxy", "goalstate", "sharedconfig", "imds", "telemetry"]
    m_reads = coq_eval(ctx, ["map (fun r => length (route_reads r)) [%s]" % "; ".join(ROUTES[r] for r in order)], name="reads")[0]
    model_reads = dict(zip(order, m_reads))
    model_requests = dict(zip(order, coq_eval(ctx, ["map route_requests [%s]" % "; ".join(ROUTES[r] for r in order)], name="reqs")[0]))

    # ---------------- hand-polled scenarios ----------------
    scs = []
    hand_routes = ["goalstate", "sharedconfig", "imds", "telemetry"]
    positions = range(0, 5)
    for route in hand_routes:
        for pre in ([0, 1], [1], [], [BAD]):   # rotated before the operation / latched / never latched / unusable secret latched
            keys = add_bad_key(rng, fresh_keys(rng, 4))
            keys[0] = fresh_keys(rng, 1)[1]
            singles = [[2], [None], [None, 2], [2, 3], [BAD], [BAD, 2]]
            for ops in singles:
                for i in positions:
                    sched = [("p", 0)] * i + [("k", o) for o in ops]
                    scs.append(("exhaustive", hand_scenario([route], pre, sched, keys)))
            for (a, b) in ((2, 3), (None, 2), (2, None)):
                for i, j in itertools.combinations(range(0, 4), 2):
                    sched = [("p", 0)] * i + [("k", a)] + [("p", 0)] * (j - i) + [("k", b)]
                    scs.append(("exhaustive", hand_scenario([route], pre, sched, keys)))
    n_exh = len(scs)
    for _ in range(150 if ctx.quick else 1500):
        n = rng.randint(2, 4)
        routes = [rng.choice(hand_routes[:3] if rng.random() < 0.85 else hand_routes) for _ in range(n)]
        keys = fresh_keys(rng, 5)
        keys[0] = fresh_keys(rng, 1)[1]
        pre = rng.choice([[0, 1], [1], []])
        sched = []
        nxt = 2
        for _ in range(rng.randint(2, 12)):
            if rng.random() < 0.3:
                if rng.random() < 0.25:
                    sched.append(("k", None))
                elif nxt <= 5:
                    sched.append(("k", nxt))
                    nxt += 1
            else:
                sched.append(("p", rng.randrange(n)))
        scs.append(("random", hand_scenario(routes, pre, sched, keys)))

    # host faults: the mock host rejects / drops the first request of a call while the key changes
    # between the rejection and any follow-up (mock-side: the keeper op completes before the answer
    # is written; schedule-side: after the answer, after j further polls of the future)
    faults = [{"status": 401}, {"status": 403}, {"status": 500}, {"status": 503}, {"mode": "close"}, {"mode": "partial"}]
    n_before_faults = len(scs)
    for route in hand_routes:
        keys = fresh_keys(rng, 4)
        keys[0] = fresh_keys(rng, 1)[1]
        for fault in faults:
            for ops in ([2], [None], [None, 2]):
                pre = [0, 1]
                scs.append(("fault", hand_scenario([route], pre, [], keys, replies=[dict(fault, ops=ops), {"status": 200}])))
                for j in range(0, 4):
                    scs.append(("fault", hand_scenario([route], pre, [("w", 0, 1)] + [("p", 0)] * j + [("k", o) for o in ops], keys,
                                                       replies=[dict(fault), {"status": 200}])))
            # two rejections in a row, a rotation during each
            scs.append(("fault", hand_scenario([route], [1], [], keys, replies=[dict(fault, ops=[2]), dict(fault, ops=[3]), {"status": 200}])))
            scs.append(("fault", hand_scenario([route], [1], [("w", 0, 1), ("k", 2), ("w", 0, 2), ("k", 3)], keys, replies=[dict(fault), dict(fault), {"status": 200}])))
    n_hand_faults = len(scs) - n_before_faults
    n_fault_calls = n_hand_faults
    ctx.log("running %d hand-polled scenarios" % len(scs))
    impl = run_driver(ctx, exe, [json.dumps(s["json"]) for _, s in scs], env, "hand-polled scenarios")
    ctx.log("hand-polled scenarios done")
    model = coq_eval(ctx, [model_expr(s) for _, s in scs], shard=60, name="hand")

    reads_seen = {}
    n_signings = n_headers = n_torn = n_rot_during = n_requests = n_notsent = 0
    samples = []
    for (kind, sc), r, m in zip(scs, impl, model):
        if not r.get("ok"):
            raise RuntimeError("c10 driver failed on %s: %s" % (json.dumps(sc["json"])[:300], r.get("error")))
        for ix, (route, s) in enumerate(zip(sc["routes"], r["signers"])):
            n_signings += 1
            where = "hand-polled host call"
            reads = s["reads"]
            window = window_keys(sc, ix)
            if ix == 0:     # keys latched by the mock host while it dealt with requests that did arrive
                for rep in sc["replies"][sc["replies_in_logical"]:len(s["requests"])]:
                    window |= set(rep.get("ops", []))
            cflag = class_py(sc, ix, reads if reads is not None else 0)
            n_rot_during += 1 if len(window) > 1 else 0
            # the property, on EVERY request this call made the host receive
            every = [observe_all(rq, sc["keys"]) for rq in s["requests"]]
            observed = [(oa[0] if oa else None) for oa in every]
            n_requests += len(observed)
            for q, oa in enumerate(every):
                for oq in (oa or [None]):
                    f = judge(oq, sc, ix, reads, route, window, cflag if q == 0 else False, where, req_ix=q)
                    if f:
                        failures.append(f)
                        n_torn += 1 if f["kind"] == "torn" else 0
                if len(oa) > 1:
                    disagreements.append({"case": {"route": route, "what": "authorization header values in one request", "driver_input": sc["json"]}, "model": 1, "impl": len(oa)})
            mh, mflag = model_result(m[ix])
            exp_requests = 0 if mh == "notsent" else model_requests[route]
            if not s["completed"] or len(s["requests"]) != exp_requests or (reads is None and exp_requests > 0):
                disagreements.append({"case": {"route": route, "what": "requests per call (the host's answer is not an input of the signing code: no re-signed retry; an unusable secret: the call fails before sending)", "driver_input": sc["json"], "model_expr": model_expr(sc)},
                                      "model": {"requests": exp_requests, "completes": True},
                                      "impl": {"completed": s["completed"], "requests": len(s["requests"]), "result": s.get("result")}})
                continue
            if exp_requests == 0:
                n_notsent += 1
                continue
            reads_seen.setdefault(route, set()).add(reads)
            o = observed[0]
            n_headers += 1 if o is not None else 0
            # correspondence with the model on this schedule
            ih = None if o is None else (o[2], o[1])
            if reads != model_reads[route]:
                disagreements.append({"case": {"route": route, "what": "actor round trips per signing", "driver_input": sc["json"]},
                                      "model": model_reads[route], "impl": reads})
            elif mh != ih:
                disagreements.append({"case": {"route": route, "signer": ix, "what": "(announced key, key that verifies the MAC)", "driver_input": sc["json"], "model_expr": model_expr(sc)},
                                      "model": mh, "impl": ih})
            elif bool(mflag) != cflag:
                disagreements.append({"case": {"route": route, "signer": ix, "what": "class predicate setkey_between_reads", "driver_input": sc["json"]},
                                      "model": mflag, "impl": cflag})
            if len(samples) < 3 and len(window) > 1 and o is not None:
                samples.append({"route": route, "pre": ["set k%s" % x for x in sc["pre"]],
                                "schedule": ["poll signer %d" % it[1] if it[0] == "p" else ("clear_key" if it[1] is None else "update_key k%d" % it[1]) for it in sc["schedule"]],
                                "impl": {"announced_key": o[2], "mac_verifies_under_key": o[1], "actor_round_trips": reads}, "model": {"hdr": mh, "class": mflag}})

    # ---------------- pairing at latch time: the real key keeper poll, then the real host calls ----------------
    lscs = latch_scenarios(rng, ctx.quick)
    lout = run_driver(ctx, exe, [json.dumps(x["json"]) for x in lscs], env, "key-keeper latch scenarios")
    lmodel = coq_eval(ctx, [latch_model_expr(x) for x in lscs], shard=40, name="latch")
    n_latch_polls = n_latch_name_mismatch = 0
    for lsc, r, mres in zip(lscs, lout, lmodel):
        keys = lsc["keys"]
        by_guid = {g: i for i, (g, _) in keys.items()}
        by_val = {v: i for i, (_, v) in keys.items()}
        if not r.get("ok") or len(r.get("steps", [])) != len(lsc["steps"]):
            disagreements.append({"case": {"route": "latch", "driver_input": lsc["json"]}, "model": "every poll completes", "impl": {"error": r.get("error"), "polls": len(r.get("steps", []))}})
            continue
        n_latch_name_mismatch += 1 if any(d != "malformed" and d != n for n, d in lsc["files"]) or any(sg is not None and acq is not None and acq != sg for sg, _, acq in lsc["steps"]) else 0
        everything = set(keys.keys())
        for pi, (stp, m) in enumerate(zip(r["steps"], mres)):
            n_latch_polls += 1
            slot = None if stp["key_guid"] is None and stp["key_value"] is None else (by_guid.get(stp["key_guid"], stp["key_guid"]), by_val.get(stp["key_value"], "?"))
            mslot = None if m is None else (m[1][0][0], m[1][1][0] - 100)
            if slot != mslot:
                disagreements.append({"case": {"route": "latch", "what": "content of the key slot after poll %d (id index, secret index)" % pi, "driver_input": lsc["json"], "model_expr": latch_model_expr(lsc)},
                                      "model": mslot, "impl": slot})
            for route, reqs in sorted(stp["signed"].items()):
                n_signings += 1
                for q, rq in enumerate(reqs):
                    n_requests += 1
                    o = observe(rq, keys)
                    n_headers += 1 if o is not None else 0
                    f = judge(o, lsc, 0, 1, route, everything, False, "host call after key-keeper poll %d (the host issued: key #i = (guid i, secret i))" % pi, req_ix=q)
                    if f:
                        failures.append(f)
                        n_torn += 1 if f["kind"] == "torn" else 0
                    ih = None if o is None else (o[2], o[1])
                    if q == 0 and ih != mslot and slot == mslot:
                        disagreements.append({"case": {"route": route, "what": "signature after poll %d vs the slot" % pi, "driver_input": lsc["json"]}, "model": mslot, "impl": ih})
        for pi, raw in r.get("attests", []):
            n_requests += 1
            o = observe(raw, keys)
            f = judge(o, lsc, 0, 1, "key-attestation", everything, False, "attestation request of key-keeper poll %d" % pi)
            if f:
                failures.append(f)
            elif o is None:
                disagreements.append({"case": {"route": "key-attestation", "driver_input": lsc["json"]}, "model": "signed with the acquired document", "impl": "no authorization header"})
    ctx.log("latch scenarios done: %d polls" % n_latch_polls)

    # ---------------- the proxied route: keeper ops injected at every scheduler turn ----------------
    pkeys = fresh_keys(rng, 3)
    pkeys[0] = fresh_keys(rng, 1)[1]
    add_bad_key(rng, pkeys)
    pkeys[3] = (pkeys[3][0], "")        # the EMPTY secret hex-decodes (to no bytes): a usable key like any other
    scripts = [([0, 1], [2]), ([0, 1], [None]), ([0, 1], [None, 2]), ([], [2]), ([0, 1], [BAD]), ([BAD], [2]), ([0, 1], [3])]
    if not ctx.quick:
        scripts += [([1], [2, 3]), ([1], [2, None]), ([0, 1], [BAD, 2])]
    cal = run_driver(ctx, exe, [json.dumps({"kind": "proxy", "pre": [op_json(1, pkeys)], "ops": [], "steps": None})], env, "proxied calibration")[0]
    if not cal.get("ok"):
        raise RuntimeError("c10 driver: proxied calibration failed: %s" % cal.get("error"))
    turns = int(cal["turns"])
    plines, pmeta = [], []
    for pre, ops in scripts:
        for st in range(0, turns + 3):
            plines.append(json.dumps({"kind": "proxy", "pre": [op_json(o, pkeys) for o in pre], "ops": [op_json(o, pkeys) for o in ops], "steps": st}))
            pmeta.append((pre, ops, st))
    ctx.log("proxied route: %d turns calibrated, %d runs" % (turns, len(plines)))
    pout = run_driver(ctx, exe, plines, env, "proxied runs")
    ctx.log("proxied runs done")
    # model: every monotone placement of the ops relative to the reads of the proxied program
    R = model_reads["proxy"]
    mexprs, mkeys = [], []
    for si, (pre, ops) in enumerate(scripts):
        for place in itertools.combinations_with_replacement(range(0, R + 1), len(ops)):
            sched, done = [], 0
            for o, p in zip(ops, place):
                sched += [("p", 0)] * (p - done) + [("k", o)]
                done = p
            msc = {"routes": ["proxy"], "pre": pre, "schedule": sched}
            mexprs.append(model_expr(msc))
            mkeys.append(si)
    mres = coq_eval(ctx, mexprs, shard=60, name="proxy")
    allowed = {}
    for si, mr in zip(mkeys, mres):
        allowed.setdefault(si, set()).add(model_result(mr[0])[0])
    seen = {}
    phases = {}
    for (pre, ops, st), line, r in zip(pmeta, plines, pout):
        si = scripts.index((pre, ops))
        psc = {"keys": pkeys, "json": json.loads(line)}
        if not r.get("ok") or len(r["requests"]) != 1 or "200" not in r.get("status", ""):
            disagreements.append({"case": {"route": "proxy", "driver_input": psc["json"]}, "model": "one forwarded request, 200", "impl": {"error": r.get("error"), "status": r.get("status"), "requests": len(r.get("requests", []))}})
            continue
        n_signings += 1
        n_requests += 1
        oa = observe_all(r["requests"][0], pkeys)
        o = oa[0] if oa else None
        n_headers += 1 if o is not None else 0
        window = set([pre[-1] if pre else None] + ops)
        ih = None if o is None else (o[2], o[1])
        for oq in (oa or [None]):
            torn_shape = oq is not None and oq[1] != oq[2]
            f = judge(oq, psc, 0, 2 if torn_shape else 1, "proxy", window, torn_shape, "proxied request, injector at scheduler turn %d" % st)
            if f:
                failures.append(f)
                n_torn += 1 if f["kind"] == "torn" else 0
        if len(oa) > 1:
            disagreements.append({"case": {"route": "proxy", "what": "authorization header values in one forwarded request", "driver_input": psc["json"]}, "model": 1, "impl": len(oa)})
        seen.setdefault(si, {}).setdefault(ih, st)
        ph = phases.setdefault(si, [])
        if not ph or ph[-1] != ih:
            ph.append(ih)
        if ih not in allowed[si]:
            disagreements.append({"case": {"route": "proxy", "what": "outcome not produced by the model under any placement of the keeper operations", "driver_input": psc["json"]},
                                  "model": sorted(map(str, allowed[si])), "impl": ih})
    for si, (pre, ops) in enumerate(scripts):
        # with ONE keeper operation every placement relative to the reads is reachable on the
        # single-threaded FIFO scheduler; two back-to-back operations of one task are not
        # (the model over-approximates there), so only inclusion is required for those
        missing = [x for x in allowed[si] if x not in seen.get(si, {})] if len(ops) == 1 else []
        if missing:
            disagreements.append({"case": {"route": "proxy", "what": "actor round trips per signing: a model outcome is never exhibited by the real handler although the keeper operation was injected at every scheduler turn of the request",
                                           "script": {"pre": pre, "ops": ops}, "turns_swept": turns + 3},
                                  "model": {"reads": R, "outcomes": sorted(map(str, allowed[si]))}, "impl": {"outcomes": sorted(map(str, seen.get(si, {}).keys()))}})
    # host faults on the proxied route: the upstream mock latches a new key / clears it, THEN rejects or
    # drops the forwarded request; every request it receives for that one client request is judged
    flines, fmeta = [], []
    for fault in faults:
        for ops in ([2], [None], [None, 2]):
            flines.append(json.dumps({"kind": "proxy", "pre": [op_json(0, pkeys), op_json(1, pkeys)], "ops": [], "steps": 0,
                                      "up_replies": [reply_json(dict(fault, ops=ops), pkeys), reply_json(dict(fault, ops=[3]), pkeys), {"status": 200}]}))
            fmeta.append((fault, ops))
    fout = run_driver(ctx, exe, flines, env, "proxied host-fault runs") if flines else []
    for (fault, ops), line, r in zip(fmeta, flines, fout):
        psc = {"keys": pkeys, "json": json.loads(line)}
        n_signings += 1
        n_fault_calls += 1
        observed = [observe(rq, pkeys) for rq in r.get("requests", [])]
        n_requests += len(observed)
        window = set([1] + ops + ([3] if len(observed) > 1 else []))
        for q, oq in enumerate(observed):
            f = judge(oq, psc, 0, 1, "proxy", window, False, "proxied request, upstream host fault %s" % json.dumps(fault), req_ix=q)
            if f:
                failures.append(f)
                n_torn += 1 if f["kind"] == "torn" else 0
        ih = [None if o is None else (o[2], o[1]) for o in observed]
        if not r.get("ok") or ih != [(1, 1)] * model_requests["proxy"]:
            disagreements.append({"case": {"route": "proxy", "what": "requests per proxied request under an upstream fault, and their (announced key, MAC key)", "driver_input": psc["json"]},
                                  "model": [(1, 1)] * model_requests["proxy"], "impl": {"requests": ih, "status": r.get("status"), "error": r.get("error")}})

    # the client's own request already carries authorization header values (a replayed header under the
    # latched id, one under an id that was never latched, garbage): the agent's header REPLACES them
    # (forwarded_auth): the host must see exactly one value, the agent's
    clines, cmeta = [], []
    junk = "%064x" % rng.getrandbits(256)
    for vals in (["Azure-HMAC-SHA256 %s %s" % (pkeys[1][0], junk)], ["Azure-HMAC-SHA256 %s %s" % (pkeys[0][0], junk)], ["Bearer c10"],
                 [["X-MS-Azure-Host-Authorization", "Azure-HMAC-SHA256 %s %s" % (pkeys[2][0], junk)]],
                 ["Azure-HMAC-SHA256 %s %s" % (pkeys[1][0], junk), ["x-MS-azure-HOST-authorization", "Azure-HMAC-SHA256 %s %s" % (pkeys[2][0], junk)]]):
        for st, exp in ((0, (2, 2)), (turns + 2, (1, 1))):
            clines.append(json.dumps({"kind": "proxy", "pre": [op_json(0, pkeys), op_json(1, pkeys)], "ops": [op_json(2, pkeys)], "steps": st, "client_auth": vals}))
            cmeta.append(exp)
    cout = run_driver(ctx, exe, clines, env, "proxied runs with a client-supplied authorization header")
    for exp, line, r in zip(cmeta, clines, cout):
        psc = {"keys": pkeys, "json": json.loads(line)}
        n_signings += 1
        got = []
        for q, rq in enumerate(r.get("requests", [])):
            n_requests += 1
            for oq in observe_all(rq, pkeys):
                got.append((oq[2], oq[1]))
                f = judge(oq, psc, 0, 1, "proxy", {1, 2}, False, "proxied request whose client supplied authorization header values", req_ix=q)
                if f:
                    failures.append(f)
                    n_torn += 1 if f["kind"] == "torn" else 0
        if not r.get("ok") or got != [exp]:
            disagreements.append({"case": {"route": "proxy", "what": "authorization header values the host receives when the client supplied some (forwarded_auth: the agent's replaces them)", "driver_input": psc["json"]},
                                  "model": [exp], "impl": {"values": got, "status": r.get("status"), "error": r.get("error")}})

    # reads on the proxied route, inferred from the script "rotate k1 -> k2": phases new / (torn) / old
    ph0 = phases.get(0, [])
    proxy_reads = max(0, len(ph0) - 1)
    reads_seen["proxy"] = {proxy_reads}
    samples.append({"route": "proxy", "script": "pre set k0,k1; injected: set k2", "first_turn_of_each_outcome": {str(k): v for k, v in seen.get(0, {}).items()}, "model_outcomes": sorted(map(str, allowed[0])), "turns": turns})

    for route, rs in sorted(reads_seen.items()):
        if rs != {model_reads[route]} and not any(d["case"].get("route") == route for d in disagreements):
            disagreements.append({"case": {"route": route, "what": "actor round trips per signing"}, "model": model_reads[route], "impl": sorted(rs)})

    total = len(scs) + len(plines) + len(flines) + len(lscs) + len(clines)
    ctx.coverage.update({
        "evaluations": total,
        "distinct_nontrivial": n_rot_during + sum(len(v) for v in seen.values()),
        "traces_validated_against_impl": total - len(disagreements),
        "rule": "hand-polled: for each of the 4 host call sites x 3 initial states, a keeper script (rotate / clear / clear+relatch / rotate twice at one point; two operations at two points) injected after poll i for every i in 0..4 (the real futures have %s actor await points), plus random interleavings of 2-4 concurrent signers with keeper operations; host faults: each call site's first request answered 401/403/500/503/closed/half-answered while the key is rotated / cleared / re-latched between the rejection and any follow-up (by the mock before it answers, and after the answer after j = 0..3 further polls), two rejections in a row, every request the host receives judged and counted against route_requests; proxied route: the same faults from the upstream host, and the operation injected at every scheduler turn 0..%d of a request through the real listener, %d scripts; non-trivial = signing operations during which the key slot changed (hand) + distinct outcomes per script (proxied)" % (
            sorted({r: sorted(v) for r, v in reads_seen.items()}.items()), turns + 2, len(scripts)),
        "exhaustive": False,
        "samples": samples[:4],
        "input_distribution": {"hand_exhaustive": n_exh, "hand_random": len(scs) - n_exh - n_hand_faults, "host_fault_calls": n_fault_calls,
                               "requests_judged": n_requests, "latch_scenarios": len(lscs), "latch_polls": n_latch_polls, "latch_scenarios_with_name_or_asked_guid_mismatch": n_latch_name_mismatch, "not_sent_unusable_secret": n_notsent, "client_supplied_auth_runs": len(clines), "proxied_runs": len(plines) + len(flines) + len(clines), "proxied_turns_calibrated": turns,
                               "signing_operations": n_signings, "with_header": n_headers, "key_changed_during_operation": n_rot_during,
                               "torn_pairs_observed": n_torn, "actor_round_trips_per_signing": {r: sorted(v) for r, v in reads_seen.items()},
                               "model_round_trips": model_reads},
    })
    ctx.assumptions += [
        "the model is tied to the code by executing the real futures / the real listener under chosen schedules, not by translation",
        "the host's answer is not an input of the signing code (one request per call, route_requests): checked by answering the real calls with 401/403/5xx/closed connections while the key changes; other fault shapes (timeouts, redirects, 1xx) are not scripted",
        "schedules are explored at await-point granularity on a single-threaded runtime; an actor processes one message at a time (tokio mpsc + one task), so preemption inside a handler cannot occur",
        "every await of a host-call future before its TCP connect is a key-keeper round trip (that is how round trips are counted); on the proxied route the count is inferred from the distinct outcomes of the turn-by-turn sweep",
        "HMAC-SHA256 is an arbitrary function in the theorems; the mock host recomputes it with Python's hmac/hashlib over the canonical string rebuilt from the received bytes",
    ]
    verdict(ctx, proofs_ok, detail, disagreements, failures, known_filter=known_filter_factory(ctx),
            corr_name="SignRace.sim / route_reads vs the real signing call sites under hand-polled schedules")
