"""C18 -- Telemetry is delivered at most once, well-formed, in bounded batches.
Model: coq/Model/Telemetry.v; theorems: coq/Props/C18.v; implementation: the real
helpers::xml_escape, TelemetryData / TelemetryEvent and EventReader (against an in-process mock
WireServer + IMDS, tokio clock paused) via harness/src/bin/c18.rs.

Two correspondence layers:
  pure  -- xml_escape on generated strings; TelemetryData::{add_event,get_size,to_xml} on generated
           events: produced bytes / sizes compared with the model's.
  run   -- EventReader::start on generated event directories with scripted upload failures: the
           sequence of POSTs (length, checksum, outcome), the batching (which event in which POST),
           and the directory afterwards compared with the model's process_events.
The property itself (written from the property text, independent of the model) is evaluated on
what the implementation did: every POST body parsed by xml.dom.minidom, sizes, at-most-once,
oversize events dropped without blocking the others, termination, files removed."""
import json
import os
import re
import shutil
import subprocess
import time
import unicodedata
from xml.dom import minidom

import vplib
from vplib import cb, clist
from checks.common import verdict

LIMIT = 65536          # "smaller than 64 KiB" -- the property text, not the code's constant
REQ = "From GPA Require Import Telemetry."
PRELUDE = """
Definition rl (l : list (bytes * N)) : bytes :=
  flat_map (fun p => concat (repeat (fst p) (N.to_nat (snd p)))) l.
(* process_events_fast = process_events (theorem C18_fast_model_equal) *)
Definition run_view (vm : vmmeta) (env : envinfo) (dir : list file) (o : oracle) :=
  match process_events_fast vm env dir o with
  | Some (frs, dir', n, _) => Some (map file_view frs, map fst dir', n)
  | None => None
  end.
Definition pure_view (full : bool) (vm : vmmeta) (env : envinfo) (evs : list event) :=
  let tds := map (fun e => from_event_log e vm env) evs in
  (map (fun k => get_size (firstn k tds)) (seq 1 (length tds)),
   (blen (to_xml tds), cksum (to_xml tds), if full then to_xml tds else []),
   map (fun t => (blen (to_xml [t]), cksum (to_xml [t]))) tds,
   get_size (removelast tds)).
"""

PARAM_NAMES = ["OpcodeName", "KeywordName", "TaskName", "TenantName", "RoleName", "RoleInstanceName",
               "ContainerId", "ResourceGroupName", "SubscriptionId", "VMId", "EventPid", "EventTid",
               "ImageOrigin", "ExecutionMode", "OSVersion", "GAVersion", "RAM", "Processors",
               "EventName", "CapabilityUsed", "Context1", "Context2", "Context3"]

HOSTILE = ["&", "<", ">", '"', "'", "]]>", "<![CDATA[", "&amp;", "&lt;", "&#38;", "&bogus;", "]]", "]",
           "/>", "</Event>", "</Provider></TelemetryData>", '<Param Name="x" Value="y" T="mt:wstr" />',
           "\\", "%", "=", " ", "  ", "a", "abc", "Z9", "\u00e9", "\u00fc\u00df", "\u65e5\u672c",
           "\U0001F600", "\u00a0", "\u2028", "\ufeff", "\u0301", "\x7f", "\u0085", "\u009f"]
CONTROLS = ["\t", "\n", "\r", "\x01", "\x1f", "\x00", "\x0b"]


# ----------------------------------------------------------------------------------------
# text values: run-length lists [[piece, count], ...]
# ----------------------------------------------------------------------------------------
def flat(rl):
    if isinstance(rl, str):
        return rl
    return "".join(p * n for p, n in rl)


def coq_text(rl):
    if isinstance(rl, str):
        return cb(rl)
    if not rl:
        return "(@nil N)"
    return "(rl [%s])" % "; ".join("(%s, %d%%N)" % (cb(p), n) for p, n in rl if n > 0 or True)


def gen_text(rng, maxlen=60, controls=False):
    """short hostile text as a run-length list"""
    out = []
    n = rng.choice([0, 1, 1, 2, 3, 5, 8])
    for _ in range(n):
        pool = HOSTILE + (CONTROLS if controls and rng.random() < 0.3 else [])
        p = rng.choice(pool)
        c = rng.choice([1, 1, 1, 2, 3, 7]) if rng.random() < 0.9 else rng.randint(8, max(8, maxlen // max(1, len(p))))
        out.append([p, c])
    return out


def gen_num(rng):
    return rng.choice(["0", "1", "12", "4242", "007", "+5", "+", "", "-1", "-0", "abc", " 5", "5 ", "1e3",
                       "18446744073709551615", "18446744073709551616", "99999999999999999999999",
                       "+18446744073709551615", "++1", "５", "0x10", str(rng.randint(0, 2 ** 40))])


def is_control_free(s):
    """the class of texts the property quantifies over: Unicode text without control characters
    (category Cc); the noncharacters U+FFFE/U+FFFF, which no XML 1.0 document may contain, are not
    text either"""
    return not any(unicodedata.category(ch) == "Cc" or ch in "\ufffe\uffff" for ch in s)


# ----------------------------------------------------------------------------------------
# reference rendering, written from the wire format (used to place sizes at the boundary and to
# decide "too large for any batch" in the property predicate)
# ----------------------------------------------------------------------------------------
HEAD = '<?xml version="1.0"?><TelemetryData version="1.0"><Provider id="FFF0196F-EE4C-4EAF-9AA5-776F622DEB4F">'
TAIL = "</Provider></TelemetryData>"


def py_escape(s):
    return s.replace("&", "&amp;").replace("'", "&apos;").replace('"', "&quot;").replace("<", "&lt;").replace(">", "&gt;")


def py_u64(s):
    t = s[1:] if s.startswith("+") else s
    if t and all(c in "0123456789" for c in t):
        v = int(t)
        return v if v <= 2 ** 64 - 1 else 0
    return 0


def py_fields(ev, vm, env):
    return [("OpcodeName", flat(ev["ts"]), "s"), ("KeywordName", env["keyword_name"], "s"),
            ("TaskName", flat(ev["task"]), "s"), ("TenantName", vm["tenant_name"], "s"),
            ("RoleName", vm["role_name"], "s"), ("RoleInstanceName", vm["role_instance_name"], "s"),
            ("ContainerId", vm["container_id"], "s"), ("ResourceGroupName", vm["resource_group_name"], "s"),
            ("SubscriptionId", vm["subscription_id"], "s"), ("VMId", vm["vm_id"], "s"),
            ("EventPid", str(py_u64(flat(ev["pid"]))), "n"), ("EventTid", str(py_u64(flat(ev["tid"]))), "n"),
            ("ImageOrigin", str(vm["image_origin"]), "n"), ("ExecutionMode", "ProxyAgent", "s"),
            ("OSVersion", env["os_version"], "s"), ("GAVersion", flat(ev["version"]), "s"),
            ("RAM", str(env["ram"]), "n"), ("Processors", str(env["processors"]), "n"),
            ("EventName", "MicrosoftAzureGuestProxyAgent", "s"), ("CapabilityUsed", flat(ev["level"]), "s"),
            ("Context1", flat(ev["message"]), "s"), ("Context2", flat(ev["ts"]), "s"),
            ("Context3", flat(ev["opid"]), "s")]


def py_event_len(ev, vm, env):
    n = len('<Event id="7"><![CDATA[') + len("]]></Event>")
    for name, val, ty in py_fields(ev, vm, env):
        v = py_escape(val) if ty == "s" else val
        n += len('<Param Name="" Value="" T="" />') + len(name) + len(v.encode("utf-8")) + len("mt:wstr" if ty == "s" else "mt:uint64")
    return n


def py_single_size(ev, vm, env):
    return len(HEAD) + len(TAIL) + py_event_len(ev, vm, env)


# ----------------------------------------------------------------------------------------
# Coq literals
# ----------------------------------------------------------------------------------------
def coq_event(ev):
    return "(mk_event %s %s %s %s %s %s %s %s)" % tuple(
        coq_text(ev[k]) for k in ("level", "message", "version", "task", "pid", "tid", "opid", "ts"))


def coq_vm(vm):
    return "(mk_vm %s %s %s %s %s %s %s %d%%N)" % tuple(
        [cb(vm[k]) for k in ("container_id", "tenant_name", "role_name", "role_instance_name",
                             "subscription_id", "resource_group_name", "vm_id")] + [vm["image_origin"]])


def coq_env(env):
    return "(mk_env %s %s %d%%N %d%%N)" % (cb(env["os_version"]), cb(env["keyword_name"]), env["ram"], env["processors"])


def b2s(l):
    return bytes(l).decode("utf-8", "replace")


# ----------------------------------------------------------------------------------------
# generators
# ----------------------------------------------------------------------------------------
def gen_vm(rng, hostile=True):
    def t():
        return flat(gen_text(rng, 20)) if hostile and rng.random() < 0.5 else rng.choice(
            ["374188df-b0a2-456a-a7b2-83f28b18d36f", "TenantAdminApi.Worker", "rg-1", "x"])
    return {"container_id": t(), "tenant_name": t(), "role_name": t(), "role_instance_name": t(),
            "subscription_id": t(), "resource_group_name": t(), "vm_id": t(), "image_origin": rng.choice([0, 1, 3, 2 ** 40])}


def gen_event(rng, token, message=None, controls=False):
    return {"level": rng.choice(["Informational", "Warning", "Error", flat(gen_text(rng, 12, controls))]),
            "message": message if message is not None else gen_text(rng, 200, controls),
            "version": rng.choice(["1.0.39", "9.9.9", flat(gen_text(rng, 10, controls))]),
            "task": rng.choice(["task", "ProxyAgent::main", flat(gen_text(rng, 30, controls))]),
            "pid": gen_num(rng), "tid": gen_num(rng),
            "opid": token,
            "ts": rng.choice(["2026-10-01T02:00:00.222Z", flat(gen_text(rng, 12, controls))])}


def filler(rng, nbytes):
    """run-length message of exactly nbytes bytes BEFORE escaping, escaping-neutral"""
    if nbytes <= 0:
        return []
    return [[rng.choice(["a", "x", "z", "0", "_"]), nbytes]]


def big_message(rng, target_escaped_bytes):
    """a message whose escaped UTF-8 length is exactly target_escaped_bytes (>= 0), built from
    long runs of hostile / non-ASCII pieces plus plain padding"""
    costs = {"&": 5, "<": 4, ">": 4, '"': 6, "'": 6, "]]>": 6, "é": 2, "日": 3, "\U0001F600": 4, "a": 1,
             "<![CDATA[": 12, "&amp;": 9}
    rl = []
    left = target_escaped_bytes
    for _ in range(rng.randint(0, 4)):
        p = rng.choice(list(costs))
        if left <= costs[p]:
            break
        n = rng.randint(1, max(1, (left // costs[p]) // rng.choice([1, 2, 3, 10])))
        rl.append([p, n])
        left -= n * costs[p]
    if left > 0:
        rl.append(["a", left])
    rng.shuffle(rl)
    return rl


# ----------------------------------------------------------------------------------------
# driver process handling (results on stdout, watchdog -> {"hang": true} and exit 3)
# ----------------------------------------------------------------------------------------
def run_driver(binary, cmds, timeout=900, hang_secs=60, max_hangs=2):
    """returns list of results (dict) aligned with cmds; a hang is {'hang': True}; lines after a
    hang are re-run in a fresh process; after max_hangs hangs the rest is {'skipped': True} (one
    failing input is enough, every further hang costs hang_secs)"""
    results = []
    i = 0
    hangs = 0
    while i < len(cmds):
        if hangs >= max_hangs:
            results += [{"ok": False, "skipped": True}] * (len(cmds) - i)
            break
        chunk = cmds[i:]
        p = subprocess.run([binary], input="\n".join(json.dumps(c) for c in chunk) + "\n", capture_output=True,
                           text=True, timeout=timeout, env=dict(os.environ, C18_HANG_SECS=str(hang_secs)))
        lines = [l for l in p.stdout.split("\n") if l.strip()]
        got = [json.loads(l) for l in lines]
        results += got
        i += len(got)
        if len(got) == len(chunk):
            break
        if got and got[-1].get("hang"):
            hangs += 1
            continue           # the hanging command got its {"hang":true}; go on with the rest
        if not got or not got[-1].get("hang"):
            # the process died without a verdict for cmds[i]: report it as a crash of that command
            results.append({"ok": False, "crash": True, "rc": p.returncode, "stderr": p.stderr[-1500:]})
            i += 1
    return results


def parallel_driver(binary, cmds, workers, hang_secs):
    from concurrent.futures import ThreadPoolExecutor
    if not cmds:
        return []
    k = max(1, min(workers, len(cmds)))
    parts = [cmds[j::k] for j in range(k)]
    with ThreadPoolExecutor(max_workers=k) as ex:
        outs = list(ex.map(lambda part: run_driver(binary, part, hang_secs=hang_secs), parts))
    res = [None] * len(cmds)
    for j, part in enumerate(outs):
        for n, r in enumerate(part):
            res[j + n * k] = r
    return res


# ----------------------------------------------------------------------------------------
# mock host documents (shapes taken from the repository's own test mock)
# ----------------------------------------------------------------------------------------
def xml_attr(s):
    return s.replace("&", "&amp;").replace("<", "&lt;").replace(">", "&gt;").replace('"', "&quot;")


def host_docs(vm):
    base = "http://127.0.0.1:##PORT##/machine/c/role%5FIN%5F0?comp=config&amp;type="
    goal = ('<?xml version="1.0" encoding="utf-8"?><GoalState><Version>2015-04-05</Version><Incarnation>16</Incarnation>'
            '<Machine><ExpectedState>Started</ExpectedState><StopRolesDeadlineHint>300000</StopRolesDeadlineHint>'
            '<LBProbePorts><Port>16001</Port></LBProbePorts><ExpectHealthReport>TRUE</ExpectHealthReport></Machine>'
            '<Container><ContainerId>%s</ContainerId><RoleInstanceList><RoleInstance><InstanceId>i</InstanceId>'
            '<State>Started</State><Configuration>'
            '<HostingEnvironmentConfig>%shostingEnvironmentConfig</HostingEnvironmentConfig>'
            '<SharedConfig>%ssharedConfig&amp;incarnation=16</SharedConfig>'
            '<ExtensionsConfig>%sextensionsConfig</ExtensionsConfig><FullConfig>%sfullConfig</FullConfig>'
            '<Certificates>%scertificates</Certificates><ConfigName>x.xml</ConfigName>'
            '</Configuration></RoleInstance></RoleInstanceList></Container></GoalState>'
            ) % (xml_attr(vm["container_id"]), base, base, base, base, base)
    shared = ('<?xml version="1.0" encoding="utf-8"?><SharedConfig version="1.0.0.0" goalStateIncarnation="16">'
              '<Deployment name="%s" guid="{g}" incarnation="132" />'
              '<Role guid="{r}" name="%s" settleTimeSeconds="0" />'
              '<Instances><Instance id="%s" address="10.1.64.6" /></Instances></SharedConfig>'
              ) % (xml_attr(vm["tenant_name"]), xml_attr(vm["role_name"]), xml_attr(vm["role_instance_name"]))
    compute = {"location": "westus", "name": "vm", "resourceGroupName": vm["resource_group_name"],
               "subscriptionId": vm["subscription_id"], "vmId": vm["vm_id"], "vmSize": "Standard_A3"}
    if vm["image_origin"] == 1:
        compute["offer"] = "WindowsServer"
    elif vm.get("offer_empty"):
        compute["offer"] = ""
    return {"goalstate": goal, "sharedconfig": shared, "imds": json.dumps({"compute": compute})}


def gen_host_vm(rng):
    """vm texts the three host documents can carry unchanged (the XML reader of the agent trims
    and normalises white space; the model takes whatever the reader obtained)"""
    def t(alts):
        return rng.choice(alts)
    return {"container_id": t(["374188df-b0a2-456a-a7b2-83f28b18d36f", "c&<1>", "c'\"2"]),
            "tenant_name": t(["7d2798bb72a0413d9a60b355277df726", "ten&ant", "t<e>n"]),
            "role_name": t(["TenantAdminApi.Worker", "role\"q\"", "r'a"]),
            "role_instance_name": t(["TenantAdminApi.Worker_IN_0", "inst]]>x", "é日"]),
            "subscription_id": t(["xxxxxxxx-xxxx-xxxx-xxxx-xxxxxxxxxxx", "sub&amp;", "s<"]),
            "resource_group_name": t(["macikgo-test-may-23", "rg \"1\"", "\U0001F600rg"]),
            "vm_id": t(["02aab8a4-74ef-476e-8182-f6d2ba4166a6", "vm'1", "<![CDATA[vm"]),
            "image_origin": rng.choice([0, 1]), "offer_empty": rng.random() < 0.3}


# ----------------------------------------------------------------------------------------
# run scenarios
# ----------------------------------------------------------------------------------------
def is_2xx(a):
    """the host accepted the batch: it answered with a 2xx status (whether or not the response body
    then arrived completely)"""
    if isinstance(a, dict):
        a = a.get("status", 200)
    return isinstance(a, int) and 200 <= a <= 299


def gen_responses(rng, quick):
    r = rng.random()
    if r < 0.55:
        return []
    fails = [500, 503, 404, 302, 429, "drop", {"status": 500, "body": "host busy"}, {"status": 503, "fault": "cut_body"},
             {"status": 500, "fault": "cut_chunked"}]
    oks = [200, 200, 201, 204, {"status": 200, "body": "stored"}, {"status": 200, "fault": "cut_body"},
           {"status": 200, "fault": "head_only"}, {"status": 200, "fault": "cut_chunked"}, {"status": 202, "fault": "cut_body"}]
    out = []
    for _ in range(rng.randint(1, 14)):
        k = rng.choice([0, 0, 1, 1, 2, 4, 5, 5, 6])
        out += [rng.choice(fails) for _ in range(k)]
        out.append(rng.choice(oks))
    if rng.random() < 0.2:
        out = [rng.choice(fails) for _ in range(rng.randint(5, 11))] + out
    return out


LOGGER_MAX = [4096]     # event_logger::MAX_MESSAGE_LENGTH, read from the regenerated constants in run()


def logger_message(rng):
    """a message as the event logger itself can write it: at most MAX_MESSAGE_LENGTH bytes (mostly at
    or just below the cap), long and dense in the characters xml_escape expands (json-like text)"""
    cap = LOGGER_MAX[0]
    n = cap - rng.choice([0, 0, 0, 1, 2, 7, 100, cap // 2])
    style = rng.choice(["quotes", "json", "mix", "amp", "apos", "plain"])
    if style == "plain":
        return [["a", n]]
    if style == "json":
        unit = rng.choice(['{"k":"v"},', '"a":"b",', "{'x':'<y>&z'}", '\\"q\\"'])
        k = n // len(unit.encode())
        return [[unit, k], ["a", n - k * len(unit.encode())]]
    piece = {"quotes": '"', "amp": "&", "apos": "'", "mix": rng.choice(['"&', "'<>", '&<>"\''])}[style]
    dense = int(n * rng.choice([0.4, 0.6, 0.8, 1.0])) // len(piece)
    rl = [[piece, dense], ["a", n - dense * len(piece)]]
    rng.shuffle(rl)
    return [x for x in rl if x[1] > 0]


def gen_scenario(rng, sid, env, quick, kind=None):
    vm = gen_host_vm(rng)
    kind = kind or rng.choice(["small", "small", "mixed", "mixed", "boundary", "boundary", "oversize", "nonascii", "many", "empty"])
    nfiles = rng.randint(1, 6)
    if kind == "cancel":
        nfiles = rng.randint(1, 3)
    total = {"logger": 0, "cancel": rng.randint(4, 24), "small": rng.randint(0, 30), "mixed": rng.randint(5, 60), "boundary": rng.randint(2, 12),
             "oversize": rng.randint(1, 12), "nonascii": rng.randint(20, 60),
             "many": rng.choice([120, 250, 400]), "empty": 0}[kind]
    tok = [0]

    def token():
        tok[0] += 1
        return "s%d-e%d" % (sid, tok[0])

    events = []
    for j in range(total):
        t = token()
        if kind == "small" or kind == "many":
            ev = gen_event(rng, t, controls=(rng.random() < 0.02))
        elif kind == "mixed":
            r = rng.random()
            if r < 0.5:
                ev = gen_event(rng, t)
            elif r < 0.85:
                ev = gen_event(rng, t, big_message(rng, rng.randint(2000, 30000)))
            else:
                ev = gen_event(rng, t, big_message(rng, rng.choice([60000, 64000, 66000, 70000, 100000])))
        elif kind == "nonascii":
            ev = gen_event(rng, t, [[rng.choice(["é", "日", "\U0001F600", "ü"]), rng.randint(400, 2500)]])
        elif kind == "cancel":
            # files that need several batches: the stop can fall between two batches of one file
            ev = gen_event(rng, t, big_message(rng, rng.choice([12000, 20000, 30000, 40000, 70000])))
        elif kind == "oversize":
            ev = gen_event(rng, t)
            if rng.random() < 0.5:
                base = py_single_size({**ev, "message": []}, vm_model_guess(vm), env)
                ev["message"] = big_message(rng, LIMIT - base + rng.choice([-1, 0, 0, 1, 2, 500, 40000]))
        else:  # boundary: placed below
            ev = gen_event(rng, t)
        events.append(ev)
    if kind == "boundary" and events:
        # single events whose own document is LIMIT-2 .. LIMIT+1 bytes, and groups whose running
        # total hits LIMIT-1 / LIMIT / LIMIT+1 exactly (pop order = reverse file order)
        vmg = vm_model_guess(vm)
        mode = rng.choice(["single", "group", "group"])
        if mode == "single":
            for ev in events:
                if rng.random() < 0.7:
                    base = py_single_size({**ev, "message": []}, vmg, env)
                    ev["message"] = big_message(rng, LIMIT - base + rng.choice([-2, -1, -1, 0, 0, 1]))
        else:
            # all events are in ONE file here; make the batch that starts at the end of the file
            # reach the boundary when its k-th event is added
            nfiles = 1
            k = rng.randint(1, len(events))
            group = events[-k:]
            others = sum(py_event_len(e, vmg, env) for e in group[1:])      # all but the one added last
            last = group[0]                                                  # popped last of the group
            base = py_event_len({**last, "message": []}, vmg, env)
            want = LIMIT + rng.choice([-1, 0, 0, 1]) - len(HEAD) - len(TAIL) - others - base
            if want >= 0:
                last["message"] = big_message(rng, want)
    # distribute over files (file order = name order = processing order)
    files = []
    cuts = sorted(rng.randint(0, len(events)) for _ in range(nfiles - 1))
    parts = [events[a:b] for a, b in zip([0] + cuts, cuts + [len(events)])]
    if kind == "logger":
        # files exactly like the ones the event logger writes: few (1..10) events per file, every
        # message within the logger's cap, but expanding 4-6x under xml_escape
        parts = []
        for _ in range(rng.randint(1, 3)):
            k = rng.choice([1, 2, 5, 6, 8, 9, 10, 10, 11])
            parts.append([gen_event(rng, token(), logger_message(rng) if rng.random() < 0.9 else None) for _ in range(k)])
    for fi, part in enumerate(parts):
        files.append({"name": "%03d-%d.json" % (fi * 7, rng.randint(0, 9)), "events": part})
    # unreadable .json files and entries that are not event files
    if rng.random() < 0.35:
        raw = rng.choice(["garbage", "", "{}", "[{\"Message\": 1}]", "[1,2", "[{\"EventLevel\":\"x\"}]", "null"])
        files.insert(rng.randint(0, len(files)), {"name": "%03d-bad.json" % rng.randint(0, 60), "raw": raw})
    if rng.random() < 0.35:
        files.append({"name": rng.choice(["notes.txt", "x.json.tmp", "events.notjson", "README", "a.jsonx"]), "raw": "[]"})
    names = set()
    uniq = []
    for f in files:
        if f["name"] not in names:
            names.add(f["name"])
            uniq.append(f)
    sc = {"id": sid, "kind": kind, "vm_intended": vm, "files": uniq, "responses": gen_responses(rng, quick)}
    if kind == "cancel":
        # the service is stopped (the token given to EventReader::new fires) when telemetry POST #n
        # arrives at the host / has been decided by the host / delay_s virtual seconds after its answer
        sc["responses"] = [rng.choice([200, 200, 200, 201, 500, 503, "drop", {"status": 200, "fault": "cut_body"}]) for _ in range(rng.randint(0, 14))]
        sc["cancel"] = {"at": rng.choice(["arrival", "answer", "answer", "sleep", "sleep"]), "n": rng.randint(0, 9),
                        "delay_s": rng.choice([1, 5, 14, 16, 100])}
    return sc


def vm_model_guess(vm):
    """what the reader will obtain from the documents built by host_docs (strings carried verbatim;
    image origin: 1 iff a non-empty offer)"""
    g = {k: vm[k] for k in ("container_id", "tenant_name", "role_name", "role_instance_name",
                           "subscription_id", "resource_group_name", "vm_id")}
    g["image_origin"] = 1 if vm["image_origin"] == 1 else 0
    return g


def file_is_readable(f):
    return "events" in f


def coq_dir(files):
    items = []
    for f in files:
        if file_is_readable(f):
            c = "(FEvents %s)" % clist([coq_event(e) for e in f["events"]], "event")
        else:
            c = "FUnreadable"
        items.append("(%s, %s)" % (cb(f["name"]), c))
    return clist(items, "file")


# ----------------------------------------------------------------------------------------
# the property, evaluated on what the implementation did in one run scenario
# ----------------------------------------------------------------------------------------
def parse_post(body):
    """independent parse of one POSTed document -> list of events, each a dict name -> (value, type).
    Raises on anything that is not the documented shape."""
    doc = minidom.parseString(body)
    root = doc.documentElement
    if root.tagName != "TelemetryData" or root.getAttribute("version") != "1.0":
        raise ValueError("root element is %r" % root.tagName)
    provs = [n for n in root.childNodes]
    if len(provs) != 1 or provs[0].nodeType != provs[0].ELEMENT_NODE or provs[0].tagName != "Provider":
        raise ValueError("TelemetryData does not hold exactly one Provider")
    out = []
    for evn in provs[0].childNodes:
        if evn.nodeType != evn.ELEMENT_NODE or evn.tagName != "Event" or evn.getAttribute("id") != "7":
            raise ValueError("unexpected node under Provider: %r" % evn)
        kids = list(evn.childNodes)
        if len(kids) != 1 or kids[0].nodeType != kids[0].CDATA_SECTION_NODE:
            raise ValueError("Event does not hold exactly one CDATA section (%d nodes)" % len(kids))
        inner = minidom.parseString(("<r>" + kids[0].data + "</r>").encode("utf-8"))
        params = {}
        order = []
        for p in inner.documentElement.childNodes:
            if p.nodeType != p.ELEMENT_NODE or p.tagName != "Param" or p.childNodes:
                raise ValueError("unexpected node in the event's parameter list: %r" % p)
            if sorted(p.attributes.keys()) != ["Name", "T", "Value"]:
                raise ValueError("Param attributes are %r" % sorted(p.attributes.keys()))
            params[p.getAttribute("Name")] = (p.getAttribute("Value"), p.getAttribute("T"))
            order.append(p.getAttribute("Name"))
        if order != PARAM_NAMES:
            raise ValueError("parameter names are %r" % order)
        out.append(params)
    return out


def check_property(sc, res, env, bodies, single_sizes):
    """returns why or None.  sc: scenario; res: driver result; bodies: list of bytes;
    single_sizes: token -> size of the document holding that event alone, as rendered by the
    implementation itself (TelemetryData with one event)"""
    if res.get("hang"):
        return "processing did not terminate (no progress for %s s; the reader was killed)" % res.get("hang_secs")
    if res.get("crash") or res.get("panic") is not None:
        return "the reader crashed: %s" % (res.get("panic") or res.get("stderr"))
    if not res.get("ok"):
        return None     # harness-level problem, handled by the caller
    vm = res["vm"]
    readable = [e for f in sc["files"] if file_is_readable(f) and f["name"].endswith(".json") for e in f["events"]]
    by_token = {flat(e["opid"]): e for e in readable}
    # --- every body: size, well-formedness, texts as data
    seen_in = {}          # token -> list of post indexes
    parsed = []
    for i, (post, body) in enumerate(zip(res["posts"], bodies)):
        if len(body) >= LIMIT:
            return "POST #%d carries a batch of %d bytes (not smaller than 64 KiB)" % (i, len(body))
        tokens_guess = re.findall(rb'Context3" Value="(s\d+-e\d+)"', body)
        in_class = all(event_in_class(by_token.get(t.decode())) for t in tokens_guess) and all(
            is_control_free(str(v)) for v in vm.values())
        try:
            evs = parse_post(body)
        except Exception as ex:
            if in_class:
                return "POST #%d is not a well-formed document of the expected shape: %s" % (i, ex)
            parsed.append(None)
            for t in tokens_guess:
                seen_in.setdefault(t.decode(), []).append(i)
            continue
        parsed.append(evs)
        toks = []
        for pe in evs:
            t = pe["Context3"][0]
            toks.append(t)
            seen_in.setdefault(t, []).append(i)
            src = by_token.get(t)
            if src is None:
                return "POST #%d carries an event %r that is in no event file" % (i, t)
            if event_in_class(src) and all(is_control_free(str(v)) for v in vm.values()):
                want = dict((n, (v, "mt:wstr" if ty == "s" else "mt:uint64")) for n, v, ty in py_fields(src, vm, env))
                for n in PARAM_NAMES:
                    if pe[n] != want[n]:
                        return "event %s: parameter %s read back as %r, written as %r" % (t, n, pe[n][0][:80], want[n][0][:80])
        if len(set(toks)) != len(toks):
            return "POST #%d carries the same event twice" % i
        if not toks:
            return "POST #%d carries an empty batch" % i
    # --- at most once (an upload counts as delivered when the host answered 2xx)
    for t, idxs in seen_in.items():
        distinct = {bodies[i] for i in idxs}
        if len(distinct) > 1:
            return "event %s was uploaded in %d different batches (POSTs %s)" % (t, len(distinct), idxs)
        okd = [i for i in idxs if is_2xx(res["posts"][i]["answer"])]
        if len(okd) > 1:
            return "event %s was delivered %d times (POSTs %s answered 2xx)" % (t, len(okd), okd)
        if okd and idxs[-1] > okd[0]:
            return "event %s was uploaded again (POST #%d) after the host had accepted it (POST #%d)" % (t, idxs[-1], okd[0])
    if res.get("ended_by_cancel_point"):
        # the service was stopped in the middle of the pass: what was not sent stays on disk for
        # the next start; only "at most once" (above) and the non-event files apply
        keep = sorted(f["name"] for f in sc["files"] if not f["name"].endswith(".json"))
        missing = [n for n in keep if n not in res["dir_at_end"]]
        if missing:
            return "files that are not event files were removed: %s" % missing
        return None
    # --- too large for any batch <=> dropped; everything else is uploaded
    for t, e in by_token.items():
        alone = single_sizes.get(t)
        if alone is not None and alone < LIMIT and t not in seen_in:
            return "event %s (%d bytes on its own) was never uploaded although it fits in a batch" % (t, alone)
    # --- files
    left = [n for n in res["dir_after"] if n.endswith(".json")]
    if left:
        return "event files were not removed: %s" % left
    keep = sorted(f["name"] for f in sc["files"] if not f["name"].endswith(".json"))
    missing = [n for n in keep if n not in res["dir_after"]]
    if missing:
        return "files that are not event files were removed: %s" % missing
    return None


def event_in_class(e):
    if e is None:
        return False
    return all(is_control_free(flat(e[k])) for k in ("level", "message", "version", "task", "opid", "ts"))


# ----------------------------------------------------------------------------------------
def run(ctx):
    vplib.gen_consts(ctx)
    proofs_ok, detail = vplib.check_proofs(ctx)
    ctx.log("proofs:", proofs_ok, detail[:200])
    bins = vplib.cargo_build(ctx, "harness", ["c18"])
    # private copy: the driver writes proxy-agent.json beside its executable
    bdir = os.path.join(ctx.scratch, "bin")
    os.makedirs(bdir, exist_ok=True)
    binary = os.path.join(bdir, "c18")
    shutil.copy2(bins["c18"], binary)
    rng = ctx.rng
    quick = ctx.quick
    hang_secs = 30 if quick else 120

    env = run_driver(binary, [{"op": "env"}])[0]
    ctx.log("machine:", env)
    disagreements, failures = [], []

    # ================= layer 1a: xml_escape =================
    n_esc = 300 if quick else 3000
    esc_cases = [[], [["&", 1]], [["&amp;", 2]], [["]]>", 3]], [["<![CDATA[", 1], ["]]>", 1]], [["'\"", 5]]]
    while len(esc_cases) < n_esc:
        esc_cases.append(gen_text(rng, 300, controls=True))
    esc_cases.append([["&", 20000]])
    esc_cases.append([["a", 70000]])
    esc_cases.append([["]]>", 9000], ["é", 9000]])
    esc_out = run_driver(binary, [{"op": "escape", "s": c} for c in esc_cases])
    esc_model = vplib.coq_eval(ctx, REQ, ["let r := xml_escape %s in (blen r, cksum r, if blen r <? 3000 then r else [])" % coq_text(c)
                                          for c in esc_cases], prelude=PRELUDE, shard=60, name="esc")
    for c, io, mo in zip(esc_cases, esc_out, esc_model):
        s = flat(c)
        got = bytes.fromhex(io["out_hex"])
        a = sum(got)
        ck = [a, sum((len(got) - i) * b for i, b in enumerate(got))]
        mlen, mck, mbytes = mo
        if mlen != len(got) or list(mck) != ck or (mbytes and bytes(mbytes) != got):
            disagreements.append({"case": {"escape": s[:200]}, "model": [mlen, list(mck)], "impl": [len(got), ck, got[:200].hex()]})
        # the property on the implementation's output, for the place the value is written to (a
        # double-quoted attribute value inside a CDATA section): nothing that ends the attribute
        # value or is illegal in it, every '&' an entity reference, no CDATA terminator, and the
        # text comes back.  (An apostrophe or a lone '>' would be harmless there: leaving them
        # unescaped breaks the model's theorem and the correspondence, not the property.)
        txt = got.decode("utf-8", "replace")
        why = None
        if any(ch in txt for ch in "<\""):
            why = "xml_escape left a character in its output that ends or breaks a double-quoted attribute value"
        elif re.search(r"&(?!amp;|lt;|gt;|quot;|apos;)", txt):
            why = "xml_escape produced an '&' that does not start an entity reference"
        elif "]]>" in txt:
            why = "xml_escape output contains the CDATA terminator"
        else:
            back = txt.replace("&lt;", "<").replace("&gt;", ">").replace("&quot;", '"').replace("&apos;", "'").replace("&amp;", "&")
            if back != s:
                why = "expanding the entity references does not give the text back"
        if why:
            failures.append({"case": {"op": "escape", "s": s[:500]}, "why": why, "impl": txt[:500]})

    # ================= layer 1b: TelemetryData on generated events =================
    n_pure = 120 if quick else 1000
    pure_cases = []
    for i in range(n_pure):
        vm = vm_model_guess(gen_vm(rng)) if rng.random() < 0.8 else vm_model_guess(gen_host_vm(rng))
        vm["image_origin"] = rng.choice([0, 1, 3, 2 ** 63, 2 ** 64 - 1])
        evs = [gen_event(rng, "p%d-%d" % (i, j), controls=(rng.random() < 0.1)) for j in range(rng.randint(0, 5))]
        pure_cases.append({"op": "pure", "vm": vm, "events": evs, "full": True})
    for i in range(12 if quick else 60):     # large ones: length + checksum only
        vm = vm_model_guess(gen_host_vm(rng))
        evs = [gen_event(rng, "P%d-%d" % (i, j), big_message(rng, rng.choice([100, 5000, 30000, 64000, 66000, 120000])))
               for j in range(rng.randint(1, 4))]
        pure_cases.append({"op": "pure", "vm": vm, "events": evs, "full": False})
    pure_out = parallel_driver(binary, pure_cases, 4, hang_secs)
    pure_model = vplib.coq_eval(ctx, REQ, ["pure_view %s %s %s %s" % ("true" if c["full"] else "false", coq_vm(c["vm"]), coq_env(env),
                                                                      clist([coq_event(e) for e in c["events"]], "event"))
                                           for c in pure_cases], prelude=PRELUDE, shard=12, name="pure")
    pure_nontrivial = 0
    for c, io, mo in zip(pure_cases, pure_out, pure_model):
        label = {"vm": c["vm"], "events": [{k: flat(v)[:120] for k, v in e.items()} for e in c["events"]]}
        if not io.get("ok"):
            failures.append({"case": label, "why": "TelemetryData panicked or failed: %s" % io, "impl": io})
            continue
        msizes, (mlen, mck, mxml), msingles, mafter = mo
        isingles = [(s["len"], tuple(s["ck"])) for s in io["singles"]]
        impl_view = (io["sizes"], io["xml"]["len"], tuple(io["xml"]["ck"]), isingles, io["size_after_remove"])
        model_view = (msizes, mlen, tuple(mck), [(l, tuple(k)) for l, k in msingles], mafter)
        same = impl_view == model_view
        if same and c["full"] and bytes(mxml) != bytes.fromhex(io["xml"]["hex"]):
            same = False
        if not same:
            disagreements.append({"case": label, "model": str(model_view)[:600], "impl": str(impl_view)[:600]})
        if c["events"]:
            pure_nontrivial += 1
        # the property: the document parses and the texts come back (control-free inputs only)
        if c["full"] and c["events"] and all(event_in_class(e) for e in c["events"]) and all(is_control_free(str(v)) for v in c["vm"].values()):
            body = bytes.fromhex(io["xml"]["hex"])
            try:
                evs = parse_post(body)
                by_tok = {flat(e["opid"]): e for e in c["events"]}
                for pe in evs:        # matched by the unique token, not by position in the document
                    src = by_tok.get(pe["Context3"][0])
                    if src is None:
                        failures.append({"case": label, "why": "the document holds an event %r that was not added" % pe["Context3"][0][:80], "impl": body[:300].decode("utf-8", "replace")})
                        break
                    want = dict((n, (v, "mt:wstr" if ty == "s" else "mt:uint64")) for n, v, ty in py_fields(src, c["vm"], env))
                    bad = [n for n in PARAM_NAMES if pe[n] != want[n]]
                    if bad:
                        failures.append({"case": label, "why": "parameter %s read back as %r, written as %r" % (bad[0], pe[bad[0]][0][:80], want[bad[0]][0][:80]), "impl": body[:300].decode("utf-8", "replace")})
                        break
                if len(evs) != len(c["events"]):
                    failures.append({"case": label, "why": "document holds %d events, %d were added" % (len(evs), len(c["events"])), "impl": body[:300].decode("utf-8", "replace")})
            except Exception as ex:
                failures.append({"case": label, "why": "to_xml() is not a well-formed document of the expected shape: %s" % ex, "impl": body[:300].decode("utf-8", "replace")})

    # ================= layer 2: the real EventReader against the mock host =================
    n_run = 100 if quick else 700
    m = re.search(r"Definition max_message_length : N := (\d+)\.", open(os.path.join(vplib.COQ, "Generated", "Consts.v")).read())
    if m:
        LOGGER_MAX[0] = int(m.group(1))
    kinds = ["cancel"] * (20 if quick else 100) + ["logger"] * (8 if quick else 50) + ["boundary"] * 12 + ["oversize"] * 8 + ["nonascii"] * 6 + ["many"] * (5 if quick else 30) + ["empty"] * 2
    scenarios = []
    for sid in range(n_run):
        scenarios.append(gen_scenario(rng, sid, env, quick, kinds[sid] if sid < len(kinds) else rng.choice(["small", "mixed", "mixed", "boundary", "oversize"])))
    run_root = os.path.join(ctx.scratch, "runs")
    cmds = []
    for sc in scenarios:
        d = os.path.join(run_root, "s%d" % sc["id"], "Events")
        cmd = {"op": "run", "dir": d, "files": sc["files"], "docs": host_docs(sc["vm_intended"]), "responses": sc["responses"]}
        if "cancel" in sc:
            cmd["cancel"] = sc["cancel"]
        cmds.append(cmd)
    t0 = time.time()
    run_out = parallel_driver(binary, cmds, 6, hang_secs)
    ctx.log("ran %d reader scenarios in %.1fs" % (len(cmds), time.time() - t0))

    # "too large for any batch" is judged on the implementation's own rendering of each event alone
    size_cmds, size_for = [], []
    for sc, res in zip(scenarios, run_out):
        if res and res.get("ok") and res.get("vm"):
            evs = [e for f in sc["files"] if file_is_readable(f) and f["name"].endswith(".json") for e in f["events"]]
            size_cmds.append({"op": "pure", "vm": res["vm"], "events": evs, "full": False})
            size_for.append(sc["id"])
    size_out = parallel_driver(binary, size_cmds, 6, hang_secs)
    singles_of = {}
    for sid, c, o in zip(size_for, size_cmds, size_out):
        if o.get("ok"):
            singles_of[sid] = {flat(e["opid"]): s["len"] for e, s in zip(c["events"], o["singles"])}

    exprs = []
    idx = []
    stats = {"posts": 0, "failed_posts": 0, "batches": 0, "dropped": 0, "events": 0, "files": 0, "unreadable": 0,
             "gaveup": 0, "exact_limit_minus_1": 0, "hangs": 0, "vm_as_intended": 0, "stopped": 0,
             "accepted_with_cut_body": 0}
    nontrivial = set()
    for sc, res in zip(scenarios, run_out):
        if res is None:
            res = {"ok": False, "error": "no result"}
        if res.get("skipped"):
            continue
        if res.get("ok") and res.get("vm") is None:
            res = dict(res, ok=False, error="the reader obtained no VM metadata from the mock host")
        if res.get("hang"):
            stats["hangs"] += 1
        if not res.get("ok") and not (res.get("hang") or res.get("crash") or res.get("panic") is not None):
            raise RuntimeError("driver failed on scenario %d: %s" % (sc["id"], str(res)[:800]))
        bodies = []
        if res.get("ok"):
            bodies = [open(p["file"], "rb").read() for p in res["posts"]]
        why = check_property(sc, res, env, bodies, singles_of.get(sc["id"], {}))
        if why:
            failures.append({"case": {"scenario": sc["id"], "kind": sc["kind"], "responses": sc["responses"],
                                      "files": [{"name": f["name"], "events": len(f.get("events", [])), "raw": f.get("raw")} for f in sc["files"]],
                                      "driver_cmd": cmds[sc["id"]],
                                      "replay_note": "feed driver_cmd as one JSON line to the harness binary c18 (or re-run the check with the same VERIF_SEED)"},
                             "why": why, "impl": {"posts": [{k: p[k] for k in ("len", "answer")} for p in res.get("posts", [])][:40],
                                                  "dir_after": res.get("dir_after")}})
        if not res.get("ok"):
            continue
        sc["_res"] = res
        sc["_bodies"] = bodies
        if res["vm"] == vm_model_guess(sc["vm_intended"]):
            stats["vm_as_intended"] += 1
        oracle = [is_2xx(a) for a in sc["responses"]]
        exprs.append("run_view %s %s %s %s" % (coq_vm(res["vm"]), coq_env(env), coq_dir(sc["files"]),
                                               clist(["true" if b else "false" for b in oracle], "bool")))
        idx.append(sc)
    t0 = time.time()
    model_runs = vplib.coq_eval(ctx, REQ, exprs, prelude=PRELUDE, shard=3, timeout=1500, name="run")
    ctx.log("model evaluated %d scenarios in %.1fs" % (len(exprs), time.time() - t0))
    samples = []
    for sc, mo in zip(idx, model_runs):
        res, bodies = sc["_res"], sc["_bodies"]
        label = {"scenario": sc["id"], "kind": sc["kind"], "responses": sc["responses"],
                 "files": [{"name": f["name"], "events": len(f.get("events", [])), "raw": f.get("raw")} for f in sc["files"]]}
        if mo is None:
            disagreements.append({"case": label, "model": "out of fuel", "impl": "terminated"})
            continue
        mfiles, mdir, mcount = mo[1]
        # model: flatten to the POST sequence and the batches
        m_posts, m_batches, m_dropped = [], [], []
        file_ranges = []
        for name, rounds in mfiles:
            if rounds is None:
                stats["unreadable"] += 1
                file_ranges.append((b2s(name), len(m_posts), len(m_posts)))
                continue
            stats["files"] += 1
            file_ranges.append([b2s(name), len(m_posts), None])
            for batch, dropped, atts in rounds[1]:
                toks = [b2s(t) for t in batch]
                m_dropped += [b2s(t) for t in dropped]
                for (ln, ck, ok) in atts:
                    m_posts.append((ln, tuple(ck), ok, tuple(toks)))
                if toks:
                    m_batches.append(toks)
                    if atts and not any(a[2] for a in atts):
                        stats["gaveup"] += 1
            file_ranges[-1] = (file_ranges[-1][0], file_ranges[-1][1], len(m_posts))
        i_posts = []
        for p, body in zip(res["posts"], bodies):
            toks = tuple(t.decode() for t in re.findall(rb'Context3" Value="(s\d+-e\d+)"', body))
            i_posts.append((p["len"], tuple(p["ck"]), is_2xx(p["answer"]), toks))
        i_dir = sorted(res["dir_after"])
        m_dir = sorted(b2s(n) for n in mdir)
        if res.get("ended_by_cancel_point"):
            # the service was stopped at the scenario's cancellation point: the host must have seen a
            # PREFIX of the POST sequence of the uninterrupted pass and nothing else; a file may be gone
            # only when all its POSTs are in the prefix, and must be gone when a later file was started
            stats["stopped"] += 1
            i_dir = sorted(res["dir_at_end"])
            npost = len(i_posts)
            bad = None
            if i_posts != m_posts[:npost]:
                bad = "the POSTs seen by the host are not a prefix of the uninterrupted pass"
            else:
                for fi, (name, start, end) in enumerate(file_ranges):
                    present = name in i_dir
                    later_started = any(s2 < npost and e2 > s2 for (_, s2, e2) in file_ranges[fi + 1:])
                    if present and later_started:
                        bad = "file %s is still there although a later file was being uploaded" % name
                    if not present and end > npost:
                        bad = "file %s is gone although only %d of its POSTs up to #%d were made" % (name, npost, end)
                if [n for n in m_dir if n not in i_dir]:
                    bad = "an entry that is not an event file is gone"
            if bad:
                k = next((j for j, (a, b) in enumerate(zip(i_posts, m_posts)) if a != b), min(len(i_posts), len(m_posts)))
                disagreements.append({"case": dict(label, cancel=sc.get("cancel")), "what": bad, "first_differing_post": k,
                                      "model": {"posts": len(m_posts), "at": str(m_posts[k:k + 2])[:500], "files": file_ranges},
                                      "impl": {"posts": len(i_posts), "at": str(i_posts[k:k + 2])[:500], "dir": i_dir}})
        elif i_posts != m_posts or i_dir != m_dir:
            k = next((j for j, (a, b) in enumerate(zip(i_posts, m_posts)) if a != b), min(len(i_posts), len(m_posts)))
            disagreements.append({"case": label, "first_differing_post": k,
                                  "model": {"posts": len(m_posts), "at": str(m_posts[k:k + 2])[:500], "dir": m_dir},
                                  "impl": {"posts": len(i_posts), "at": str(i_posts[k:k + 2])[:500], "dir": i_dir}})
        stats["posts"] += len(i_posts)
        stats["accepted_with_cut_body"] += sum(1 for p in res["posts"] if isinstance(p["answer"], dict) and p["answer"].get("fault") and is_2xx(p["answer"]))
        stats["failed_posts"] += sum(1 for p in i_posts if not p[2])
        stats["batches"] += len(m_batches)
        stats["dropped"] += len(m_dropped)
        stats["events"] += mcount
        stats["exact_limit_minus_1"] += sum(1 for p in i_posts if p[0] == LIMIT - 1)
        if len(m_batches) >= 2 or m_dropped:
            nontrivial.add((tuple(p[:3] for p in i_posts), tuple(m_dropped)))
        if len(samples) < 3 and len(m_batches) >= 2:
            samples.append({"scenario": label, "impl_posts": [(p[0], p[2], len(p[3])) for p in i_posts][:12],
                            "model_posts": [(p[0], p[2], len(p[3])) for p in m_posts][:12], "dir_after": i_dir})
        sc.pop("_res", None)
        sc.pop("_bodies", None)

    total = len(esc_cases) + len(pure_cases) + len(scenarios)
    ctx.coverage.update({
        "evaluations": total,
        "distinct_nontrivial": len({flat(c) for c in esc_cases if any(ch in flat(c) for ch in "&<>\"'")}) + pure_nontrivial + len(nontrivial),
        "traces_validated_against_impl": total - len(disagreements),
        "rule": "non-trivial = an escape input holding at least one of & < > \" ' (distinct by content); a TelemetryData case with at least one event; "
                "a reader scenario with at least two batches or a dropped event (distinct by its POST sequence)",
        "exhaustive": False,
        "samples": samples,
        "input_distribution": {"escape_strings": len(esc_cases), "telemetry_data_cases": len(pure_cases), "reader_scenarios": len(scenarios),
                               "scenario_kinds": {k: sum(1 for s in scenarios if s["kind"] == k) for k in sorted({s["kind"] for s in scenarios})},
                               "with_upload_failures": sum(1 for s in scenarios if any(not is_2xx(a) for a in s["responses"])),
                               **stats},
    })
    ctx.assumptions += [
        "the model is tied to the code by differential execution on the cases above, not by translation",
        "an upload counts as delivered only when the host answered 2xx (fault model of the property); a host that stores a batch and then answers an error can receive it again on retry",
        "std::fs::remove_file succeeds on the event files (a file that cannot be removed would be read again by the next pass)",
        "Rust Strings are valid UTF-8, so the byte-wise replacement of the five ASCII characters is str::replace on chars",
        "the texts of the property's class hold no control characters (Unicode Cc) and none of the noncharacters U+FFFE/U+FFFF, which XML 1.0 cannot carry at all; the model's grammar is byte-level (it excludes bytes below 0x20 only)",
        "tokio's paused clock (test-util) replaces the 15 s retry sleeps and the reader's interval; the reader is stopped when it begins its second pass",
        "the event logger and the reader are not run concurrently on one directory (a file being written while it is read is outside the model)",
    ]
    verdict(ctx, proofs_ok, detail, disagreements, failures,
            corr_name="Telemetry.{xml_escape,to_xml,get_size,process_events} vs helpers::xml_escape / TelemetryData / EventReader")
