"""C14 -- The proxy is transparent: requests and responses are relayed unchanged.
Model: coq/Model/Relay.v (request leg = Headers.proxy_forward over the collected body; response leg = map_frame +
marker insert; FIFO pairing under the mutex); theorems: coq/Props/C14.v; implementation: the real ProxyServer end to
end (tools/e2e.py): raw-socket clients, raw-socket mock hosts with scripted replies matched to requests by a unique
tag, so that BYTES ON THE WIRE are compared on both legs (modulo message framing and Date, which hyper regenerates;
header names arrive lower-cased).

Per exchange:
  (a) implementation: the raw request the host received and the raw response the client received;
  (b) model: Relay.c14_request_case / c14_response_case by vm_compute on the same method/target/header lines/status
      (bodies up to 1.5 KiB go through the model; larger ones are compared byte for byte here, which is what
      C14_chunking_irrelevant / C14_response_bytes say the model would return);
  (c) the property text as a Python predicate over (a) (prop_request, prop_response, pairing).
"""
import os
import sys

sys.path.insert(0, os.path.normpath(os.path.join(os.path.dirname(os.path.abspath(__file__)), "..")))
import e2e  # noqa: E402
import vplib  # noqa: E402
from vplib import cb, clist  # noqa: E402
from checks.common import verdict  # noqa: E402
from checks import relay_common as rc  # noqa: E402
from checks.relay_common import CLAIMS, DATE, AUTH, OWNED  # noqa: E402

MODEL_BODY_MAX = 600
MARKER = "value"
# regenerated per leg by hyper (the property allows it): message framing and Date
RESP_SKIP = rc.FRAMING + ("date",)

METHODS = ["GET", "GET", "GET", "POST", "POST", "PUT", "DELETE", "PATCH", "OPTIONS", "HEAD", "PROPFIND", "REPORT", "MKCOL",
           "M-SEARCH", "TRACE", "FOO", "get", "QUERY", "LOCK"]
PATHS = ["/", "/metadata/instance", "/machine", "/a/b/c.d", "/metadata/identity/oauth2/token", "/x%20y/%E2%82%AC", "/~user/file;v=1",
         "/machine/plugins", "/vmAgentLog", "/machine/", "/UPPER/Case", "/a//b", "/.well-known/x"] * 3 + ["/" + "seg/" * 40]
QUERIES = [None, None, "api-version=2021-02-01", "comp=goalstate", "a=1&b=2&a=3", "x", "x=", "=y", "a=b&&c", "q=%26%3D%3F&r=+",
           "comp=telemetrydata", "resource=https%3A%2F%2Fmanagement.azure.com%2F&api-version=2018-02-01"] * 3 + ["a=" + "z" * 900]
REQ_NAMES = ["accept", "Accept", "x-ms-version", "Metadata", "User-Agent", "x-dup", "X-Dup", "X-DUP", "cookie", "authorization",
             "if-none-match", "x-ms-client-request-id", "range", "x-!#$%&'*+.^_`|~0", "a", "x-" + "n" * 40, "accept-encoding",
             "content-type", "x-ms-azure-host", CLAIMS + "-2", "date", "via", "x-forwarded-for", "cache-control"]
RESP_NAMES = ["content-type", "Content-Type", "etag", "ETag", "set-cookie", "Set-Cookie", "x-ms-request-id", "x-ms-version", "server",
              "cache-control", "location", "www-authenticate", "x-dup", "X-Dup", "vary", "x-!#$%&'*+.^_`|~1", "retry-after",
              "x-ms-azure-host-claims", "x-ms-azure-host-date", "last-modified", "x-" + "r" * 50]
STATUSES = [200, 200, 200, 201, 202, 203, 204, 206, 207, 301, 302, 304, 307, 400, 401, 403, 404, 405, 409, 410, 412, 413, 418, 421, 429,
            500, 501, 502, 503, 504, 599]
TEXTS = ["*/*", "application/json; charset=utf-8", "true", "2012-11-30", "a  b\tc", "", "W/\"0x8D\"", "k=v; Path=/; HttpOnly", "0",
         "Bearer eyJ0eXAiOiJKV1QiLCJhbGciOiJSUzI1NiJ9.e30.c2ln", "bytes=0-99", "text/xml", "gzip, deflate", ",", ";=:"] * 4 + ["x" * 700]


def rand_bytes(rng, n):
    return rng.getrandbits(8 * n).to_bytes(n, "big") if n else b""


def gen_body(rng, sizes):
    n = rng.choice(sizes)
    r = rng.random()
    if r < 0.2 and n:
        unit = "aé€\U0001F600ÿ".encode("utf-8")          # 1-, 2-, 3- and 4-byte sequences
        return (unit * (n // len(unit) + 1))[:n]
    if r < 0.3 and n:
        return bytes([0, 255, 128, 127, 13, 10, 13, 10, 48, 13, 10, 13, 10] * (n // 13 + 1))[:n]   # framing look-alikes
    return rand_bytes(rng, n)


def cut(rng, n, max_parts=14):
    """sizes adding up to n with small adversarial pieces first (1 byte, 2 bytes, ...) and the rest in one"""
    if n == 0:
        return []
    out, left = [], n
    for _ in range(rng.randint(1, max_parts)):
        if left <= 0:
            break
        c = min(left, rng.choice([1, 1, 2, 3, 5, 7, 64, 1000, rng.randint(1, max(1, n))]))
        out.append(c)
        left -= c
    if left:
        out.append(left)
    return out


def gen_headers(rng, names, lo, hi, allow_obs):
    hs = []
    for _ in range(rng.randint(lo, hi)):
        v = rng.choice(TEXTS)
        if allow_obs and rng.random() < 0.05:
            v = "caf\u00e9 \u00ff"                    # obs-text (bytes >= 0x80)
        hs.append((rng.choice(names), v))
    return hs


def gen_exchange(rng, tag, key, last, quick):
    method = rng.choice(METHODS)
    path, query = rng.choice(PATHS), rng.choice(QUERIES)
    exempt = rng.random() < 0.06
    if exempt:
        method, path, query = rng.choice([("PUT", "/vmAgentLog", None), ("POST", "/machine/", "comp=telemetrydata"),
                                          ("PUT", "/VMAGENTLOG", None), ("POST", "/machine/", "comp=TelemetryData"),
                                          ("POST", "/MACHINE/", "COMP=TELEMETRYDATA"), ("PUT", "/vmagentlog", None)])
    target = path + ("?" + query if query is not None else "")
    if not exempt and rng.random() < 0.05:
        # look-alikes of the listener's own /provision endpoint: only the exact target "/provision" is answered locally, everything
        # else on a recorded connection is the host's business and must be relayed
        target = rng.choice(["/provision?comp=state&incarnation=7", "/provision?x", "/provision/", "/PROVISION",
                             "/provisions", "/provision;v=1", "/provision/status?a=1", "http://168.63.129.16/provision?comp=state",
                             "http://x/provision/", "/a/provision"])
    frag = "#frag" if rng.random() < 0.03 else ""
    hs = gen_headers(rng, REQ_NAMES, 0, 30 if rng.random() < 0.2 else 8, allow_obs=key is None)
    big_head = rng.random() < 0.012
    if big_head:
        # a header block of 30-70 KB (well inside hyper's default buffer): compared by the predicate only, the model is not fed 50 KB
        hs += [("x-big-%d" % j, ("%x" % rng.getrandbits(64)) * rng.choice([60, 120])) for j in range(rng.randint(25, 40))]
    for name in OWNED:
        if rng.random() < 0.12:
            hs.append((rc.rand_case(rng, name), rng.choice(['{ "isRoot": "true"}', "Thu, 01 Jan 1970 00:00:00 GMT", "value"])))
    rng.shuffle(hs)
    hs.insert(rng.randint(0, len(hs)), ("x-tag", tag))
    sizes = [0, 0, 0, 1, 2, 17, 300, 1400, 1500, 5000, 20000, 65536, 102399, 102400] if quick else \
        [0, 0, 1, 2, 17, 300, 1400, 1500, 5000, 20000, 65536, 65537, 100000, 102399, 102400, 102400]
    body = b"" if method in ("GET", "HEAD", "OPTIONS", "TRACE", "get") and rng.random() < 0.85 else gen_body(rng, sizes)
    if exempt and rng.random() < 0.6:
        body = gen_body(rng, [102401, 150000, 300000])      # the exempt uploads are relayed beyond the 100 KiB class
    chunks = None
    if body and rng.random() < 0.5 or (not body and rng.random() < 0.05):
        chunks = cut(rng, len(body), 12) if rng.random() < 0.5 else [rng.choice([1, 3, 100, 4096, 50000])]
        if chunks == [1] and len(body) > 3000:
            chunks = [997]
    # the host's answer
    status = rng.choice(STATUSES)
    rbody = b"" if status in (204, 304) else gen_body(rng, [0, 1, 2, 9, 100, 1000, 1500, 4000, 30000, 65536] if quick else
                                                       [0, 1, 2, 9, 100, 1000, 1500, 4000, 30000, 65536, 200000])
    rbody = (tag.encode() + b"|" + rbody) if status not in (204, 304) else b""
    rhs = gen_headers(rng, RESP_NAMES, 0, 20 if rng.random() < 0.2 else 6, allow_obs=True)
    if rng.random() < 0.15:
        rhs.append((rc.rand_case(rng, AUTH), rng.choice(["host-supplied", "value", "Azure-HMAC-SHA256 x y"])))
    if rng.random() < 0.15:
        rhs.append(("Date", "Tue, 15 Nov 1994 08:12:31 GMT"))
    # connection-management / hop-by-hop headers in the HOST's answer: the property says the client receives the host's headers
    kind = "normal"
    if rng.random() < 0.2:
        rhs += rng.sample([("Keep-Alive", "timeout=5, max=100"), ("Connection", "keep-alive"), ("Upgrade", "h2c"),
                           ("Connection", "x-ms-request-id"), ("x-ms-request-id", "7f"), ("Proxy-Connection", "keep-alive"),
                           ("TE", "trailers"), ("Connection", "Upgrade"), ("keep-alive", "timeout=1")],
                          rng.randint(1, 3))
    r = rng.random()
    if status not in (204, 304) and method != "HEAD":
        if r < 0.035:
            kind = "connclose"          # the host announces it closes the connection, and does
            rhs.append((rng.choice(["Connection", "connection", "CONNECTION"]), rng.choice(["close", "Close", "close, x-foo"])))
        elif r < 0.075 and len(rbody) > 4:
            kind = "truncated"          # the host connection fails in the middle of the body
        elif r < 0.11:
            kind = "noreply"            # the host reads the whole request, then drops the connection without answering
    # at most ONE Connection header per answer: hyper joins repeated Connection headers into one comma-separated value (an
    # equivalent spelling of the same list, but not byte-identical)
    seen_conn, kept = False, []
    for k, v in reversed(rhs):
        if k.lower() == "connection":
            if seen_conn:
                continue
            seen_conn = True
        kept.append((k, v))
    rhs = kept[::-1]
    rng.shuffle(rhs)
    rhs.insert(rng.randint(0, len(rhs)), ("X-Reply-Tag", tag))
    # the driver writes the JSON strings as UTF-8: that is what is on the wire, handled here as latin-1 text
    rhs_wire = [(k, v.encode("utf-8").decode("latin-1")) for k, v in rhs]
    reply = {"match": "x-tag: %s\r\n" % tag, "status": status, "headers": [[k, v] for k, v in rhs],
             "body_b64": e2e.base64.b64encode(rbody).decode()}
    framing = rng.random()
    if status in (204, 304):
        reply["no_content_length"] = True
    elif framing < 0.4:
        reply["chunked"] = cut(rng, len(rbody), 10) if rng.random() < 0.6 else [rng.choice([1, 2, 7, 1000, 16384])]
        if reply["chunked"] == [1] and len(rbody) > 2000:
            reply["chunked"] = [509]
    elif framing < 0.47 and last and method != "HEAD":
        reply["no_content_length"] = True        # body delimited by closing the connection
        reply["close"] = True
    if kind == "connclose":
        reply.pop("no_content_length", None)
        reply["close"] = True
    if kind == "noreply":
        reply = {"match": reply["match"], "close_without_reply": True}
    if kind == "truncated":
        # head + a strict prefix of the body in the chosen framing, then the host closes: never a terminator / never the full length
        chunked = rng.random() < 0.6
        keep = rng.randint(1, len(rbody) - 1)
        head = "HTTP/1.1 %d Status\r\n" % status + "".join("%s: %s\r\n" % kv for kv in rhs)
        if chunked:
            raw = (head + "Transfer-Encoding: chunked\r\n\r\n").encode("utf-8")
            sizes, pos = cut(rng, keep, 6), 0
            for i, c in enumerate(sizes):
                whole = i < len(sizes) - 1 or rng.random() < 0.5
                raw += b"%x\r\n" % (c if whole else c + rng.randint(1, 50)) + rbody[pos:pos + c] + (b"\r\n" if whole else b"")
                pos += c
        else:
            raw = (head + "Content-Length: %d\r\n\r\n" % len(rbody)).encode("utf-8") + rbody[:keep]
        reply = {"match": reply["match"], "raw_b64": e2e.base64.b64encode(raw).decode(), "close": True}
    if rng.random() < 0.45:
        reply["write_sizes"] = cut(rng, len(rbody) + 200, 9)
        reply["write_pause_ms"] = rng.choice([0, 1, 1, 2])
    if rng.random() < 0.2:
        reply["delay_ms"] = rng.randint(1, 4)
    return {"tag": tag, "kind": kind, "dead": False, "big_head": big_head, "method": method, "target": target + frag, "sent_target": target, "headers": hs, "body": body, "chunks": chunks,
            "status": status, "rheaders": rhs_wire, "rbody": rbody, "reply": reply, "key": key}


def request_bytes(x):
    return e2e.http_request(x["method"], x["target"], x["headers"], body=x["body"], chunked=x["chunks"])


# ------------------------------------------------------------------------------------------
# the property, from its text
# ------------------------------------------------------------------------------------------
def grouped(headers, skip):
    """{name: [values in order]} and the order of first occurrence, without the skipped names"""
    by, order = {}, []
    for k, v in headers:
        if k in skip:
            continue
        if k not in by:
            by[k] = []
            order.append(k)
        by[k].append(v)
    return by, order


def prop_request(x, up):
    """up: the parsed request the host received"""
    if up["method"] != x["method"]:
        return "method %r relayed as %r" % (x["method"], up["method"])
    if up["target"] != x["sent_target"]:
        return "path and query %r relayed as %r" % (x["sent_target"], up["target"])
    if up["body"] != x["body"]:
        return "request body changed (%d bytes sent%s, %d received, first difference at %s)" % (
            len(x["body"]), "" if x["chunks"] is None else " chunked", len(up["body"]), first_diff(x["body"], up["body"]))
    sent, so = grouped([(k.lower(), rc.trim_ows(v)) for k, v in [("host", "x")] + x["headers"]], OWNED + rc.FRAMING)
    got, go = grouped(rc.hdr_list(up), OWNED + rc.FRAMING)
    for k in so:
        if got.get(k) != sent[k]:
            return "client header %r: sent values %r, host received %r" % (k, sent[k], got.get(k))
    for k in go:
        if k not in sent:
            return "the host received a header the client did not send: %r = %r" % (k, got[k])
    return None


def prop_response(x, resp):
    """resp: the parsed response the client received"""
    if resp["status"] != x["status"]:
        return "host status %d delivered as %s" % (x["status"], resp["status"])
    want_body = b"" if x["method"] == "HEAD" else x["rbody"]
    if resp["body"] != want_body:
        return "response body changed (%d bytes from the host, %d delivered, first difference at %s)" % (
            len(want_body), len(resp["body"]), first_diff(want_body, resp["body"]))
    sent, so = grouped([(k.lower(), rc.trim_ows(v)) for k, v in x["rheaders"]], RESP_SKIP + (AUTH,))
    got, go = grouped(rc.hdr_list(resp), RESP_SKIP + (AUTH,))
    for k in so:
        if got.get(k) != sent[k]:
            return "host header %r: host sent values %r, client received %r" % (k, sent[k], got.get(k))
    for k in go:
        if k not in sent:
            return "the client received a header the host did not send: %r = %r" % (k, got[k])
    marker = rc.values(rc.hdr_list(resp), AUTH)
    if marker != [MARKER]:
        return "the proxy's marker header is %r, not exactly one %r" % (marker, MARKER)
    return None


def first_diff(a, b):
    for i, (p, q) in enumerate(zip(a, b)):
        if p != q:
            return "offset %d (0x%02x -> 0x%02x)" % (i, p, q)
    return "offset %d (length)" % min(len(a), len(b))


# ------------------------------------------------------------------------------------------
# recorded finding F12 (known_findings.d/C14.json): class predicate on the implementation's behaviour
# ------------------------------------------------------------------------------------------
F12_WHAT = ("pairing (F12): a request that is not the first on its keep-alive connection was answered 503 by the proxy itself and never "
            "relayed (hyper: 'connection was not ready' -- send_request without ready().await; repaired by fix commit cdcae0b)")


def f12_class(i, x, responses, by_tag, log_text):
    """KnownClass_C14_send_before_ready seen from outside: NOT the first request of its connection; the proxy's own 503 (empty
    body, no marker header, no reply tag); nothing relayed for it; and -- whenever the agent's connection log is at hand -- a
    503 summary line with hyper's 'operation was canceled' for this URL"""
    if i == 0 or i >= len(responses) or not responses[i].get("complete") or responses[i].get("status") != 503:
        return False
    resp = e2e.parse_http(responses[i]["raw"], head_response=(x["method"] == "HEAD"))
    if resp is None or resp["body"] or resp["header"](AUTH) or resp["header"]("x-reply-tag") or by_tag.get(x["tag"]):
        return False
    if log_text is not None:
        import json as _json
        url = _json.dumps(x["sent_target"])
        return any('"url":%s' % url in l and "503 Service Unavailable" in l and "operation was canceled" in l
                   for l in log_text.split("\n"))
    return True


def known_filter(f):
    """suppresses only while known_findings.json lists F12 with status "known"; since fix commit cdcae0b it is "fixed",
    so a 503 of this class is a violation again"""
    if f.get("f12") and any(k.get("id") == "F12" for k in vplib.known_findings("C14")):
        return F12_WHAT
    return None


def read_connection_log(r):
    """the agent's connection log of the driver process that ran scenario r, or None when it cannot serve as evidence
    (missing, or rolled over)"""
    import glob
    import os
    files = glob.glob(os.path.join(r.get("scratch", ""), "logs", "ProxyAgent.Connection*"))
    if len(files) != 1:
        return None
    try:
        return open(files[0], encoding="utf-8", errors="replace").read()
    except OSError:
        return None


# ------------------------------------------------------------------------------------------
def run(ctx):
    broken = rc.gen_consts_or_search(ctx)
    proofs_ok, detail = vplib.check_proofs(ctx)
    if broken:
        proofs_ok, detail = False, broken
    ctx.log("proofs:", proofs_ok, detail[:200])
    rng = ctx.rng
    stress = []
    if not proofs_ok:
        # a proof obligation no longer checks: search for a failing input around the theorems' witnesses -- here the
        # pipelines that exhibited finding F12 (C14_every_request_relayed depends on the regenerated constant
        # upstream_waits_ready); being a race it needs many runs
        import json
        sc = json.load(open(os.path.join(vplib.VERIF, "corpus", "C14", "f12_not_ready.json")))
        stress = [dict(sc, name="F12 witness, run %d" % i) for i in range(300)]
    want = 300 if ctx.quick else 6000
    scenarios, plan = [], []        # plan[s] = [[exchange per request] per connection]
    total = 0
    n_odd = [0]
    while total < want:
        s = len(scenarios)
        key = None if rng.random() < 0.5 else {"guid": "c14-%06x" % rng.getrandbits(24), "key": "%064x" % rng.getrandbits(256)}
        dest = rng.choice([e2e.WIRESERVER, e2e.HOSTGA, e2e.IMDS, e2e.OTHER])
        conns, pconns, replies = [], [], []
        # who calls must not matter: in some scenarios the attributed caller is a helper process whose command line holds control
        # characters (a shell started with a two-line -c script), DEL, TAB or non-ASCII text
        odd_caller = rng.random() < 0.15
        caller_argv = ["sh", "-c", "sleep 600" + rng.choice(["\n", "\r\n", "\x1b[0m", "\x7f", "\t", " \u00e9\u20ac", "\n\n", "\x01"]) + "# second line"]
        for ci in range(rng.randint(1, 4)):
            k = rng.choice([1, 1, 2, 3, 5, 10]) if rng.random() < 0.8 else rng.randint(1, 10)
            xs = [gen_exchange(rng, "q%d-%d-%d" % (s, ci, i), key, i == k - 1, ctx.quick) for i in range(k)]
            ended = False
            for x in xs:
                # after the host said `connection: close` (relayed to the client) or died mid-body, the client connection is over:
                # the remaining pipelined requests must be neither answered nor relayed
                x["dead"] = ended
                if not ended and (x["kind"] in ("connclose", "truncated", "noreply") or x["reply"].get("close")):
                    # "told": the client learns that the connection is over (connection: close relayed / transfer aborted);
                    # "silent": the host just went away, so a later request legitimately gets the proxy's own 502/503
                    ended = "told" if x["kind"] in ("connclose", "truncated") else "silent"
            pipelined = k > 1 and rng.random() < 0.6
            if any(x["kind"] != "normal" or x["reply"].get("close") for x in xs[:-1]):
                # a connection that the host ends before the client's last request is driven request by request: with the later
                # requests already written (pipelined) the proxy's close finds unread data and the kernel answers with a RESET,
                # which can destroy responses the client has not read yet -- a property of TCP, not of the proxy
                pipelined = False
            reqs = []
            for x in xs:
                knobs = {}
                raw = request_bytes(x)
                if not pipelined and rng.random() < 0.3:
                    knobs = {"write_sizes": cut(rng, len(raw), 8), "write_pause_ms": rng.choice([0, 1, 2])}
                reqs.append(e2e.req(raw, timeout_ms=60000, **knobs))
                if not x["dead"]:
                    replies.append(x["reply"])
            conns.append(e2e.conn(reqs, audit=e2e.audit(dest, uid=0, pid="oddcaller" if odd_caller else "self"), id=ci,
                                  pipelined=pipelined, timeout_ms=60000))
            pconns.append(xs)
            total += k
        rng.shuffle(replies)
        extra = {"exec_helpers": {"oddcaller": caller_argv}} if odd_caller else {}
        n_odd[0] += 1 if odd_caller else 0
        scenarios.append(e2e.scenario("c14-%d" % s, conns, key=key, concurrent=True, replies={dest: replies},
                                      scenario_timeout_ms=180000, drain_timeout_ms=6000, **extra))
        plan.append((dest, pconns))
    def plain_exchange(tag, key):
        while True:
            x = gen_exchange(rng, tag, key, False, ctx.quick)
            if x["kind"] == "normal" and not x["reply"].get("close") and x["method"] != "HEAD" and x["status"] not in (204, 304):
                return x

    def add_special(name, dest, key, conn_xs, **knobs):
        """conn_xs: one list of exchanges per client connection, driven request by request; x["req_knobs"] go to e2e.req"""
        nonlocal total
        conns, replies = [], []
        for ci, xs in enumerate(conn_xs):
            reqs = []
            for x in xs:
                reqs.append(e2e.req(request_bytes(x), timeout_ms=60000, **x.get("req_knobs", {})))
                replies.append(x["reply"])
            conns.append(e2e.conn(reqs, audit=e2e.audit(dest, uid=0), id=ci, pipelined=False, timeout_ms=60000))
            total += len(xs)
        scenarios.append(e2e.scenario(name, conns, key=key, concurrent=True, replies={dest: replies},
                                      scenario_timeout_ms=180000, drain_timeout_ms=6000, **knobs))
        plan.append((dest, conn_xs))

    # one client abandons a large download half-way while another client keeps using its own keep-alive connection to the SAME
    # endpoint: the second client's later requests must still be answered by the host (one upstream connection per client connection)
    for k in range(1 if ctx.quick else 6):
        s = len(scenarios)
        dest = rng.choice([e2e.WIRESERVER, e2e.IMDS])
        key = None if rng.random() < 0.5 else {"guid": "c14-%06x" % rng.getrandbits(24), "key": "%064x" % rng.getrandbits(256)}
        a = plain_exchange("q%d-0-0" % s, key)
        a["kind"] = "abandoned"
        a["rbody"] = a["tag"].encode() + b"|" + gen_body(rng, [1500000])
        a["rheaders"] = [("X-Reply-Tag", a["tag"])]
        a["reply"] = {"match": a["reply"]["match"], "status": 200, "headers": [["X-Reply-Tag", a["tag"]]],
                      "body_b64": e2e.base64.b64encode(a["rbody"]).decode(), "write_sizes": [60000], "write_pause_ms": 20}
        a["req_knobs"] = {"abort_after": rng.choice([30000, 120000, 400000])}
        bs = []
        for i in range(5):
            b = plain_exchange("q%d-1-%d" % (s, i), key)
            b["req_knobs"] = {"ops_after": [{"op": "sleep_ms", "ms": rng.choice([150, 250, 400])}]}
            bs.append(b)
        add_special("c14-abandon-%d" % s, dest, key, [[a], bs])
    # the proxy is the side that closes (the client asked for `Connection: close`, or the host announced it) and the client is a SLOW
    # READER: it starts reading 1.5 s after sending, when the proxy has long closed its side.  Everything the host sent must still
    # arrive (a close that discards unsent data -- SO_LINGER 0 -- loses most of a body larger than the receive window)
    for variant in ("client", "host"):
        s = len(scenarios)
        x = plain_exchange("q%d-0-0" % s, None)
        x["kind"] = "slowread"
        x["status"] = 200
        x["rbody"] = x["tag"].encode() + b"|" + gen_body(rng, [1 << 20, 3 << 19])
        rh = [["X-Reply-Tag", x["tag"]]]
        if variant == "client":
            x["headers"].append(("Connection", "close"))
        else:
            rh.append(["Connection", "close"])
        x["rheaders"] = [(k, v) for k, v in rh]
        x["reply"] = {"match": x["reply"]["match"], "status": 200, "headers": rh, "body_b64": e2e.base64.b64encode(x["rbody"]).decode(),
                      "close": variant == "host"}
        x["req_knobs"] = {"read_delay_ms": 1500}
        add_special("c14-slow-reader-%s-%d" % (variant, s), rng.choice([e2e.WIRESERVER, e2e.IMDS]), None, [[x]])
    if not ctx.quick:
        # THOROUGH ONLY (12 s): a host that pauses longer than 10 s in the middle of a chunked body -- the client must still get
        # the whole body (an idle cut-off that ends the body cleanly would deliver a terminated prefix)
        s = len(scenarios)
        x = plain_exchange("q%d-0-0" % s, None)
        x["status"] = 200
        x["rbody"] = x["tag"].encode() + b"|" + gen_body(rng, [20000])
        x["rheaders"] = [("X-Reply-Tag", x["tag"])]
        x["reply"] = {"match": x["reply"]["match"], "status": 200, "headers": [["X-Reply-Tag", x["tag"]]],
                      "body_b64": e2e.base64.b64encode(x["rbody"]).decode(), "chunked": [4096], "write_sizes": [9000, 1 << 20],
                      "write_pause_ms": 11500}
        add_special("c14-slow-host-%d" % s, e2e.IMDS, None, [[x]])
    results = e2e.run_scenarios(ctx, scenarios, timeout=1800)
    ctx.log("e2e: %d scenarios, %d exchanges" % (len(scenarios), total))

    disagreements, failures = [], []
    if stress:
        for sc, r in zip(stress, e2e.run_scenarios(ctx, stress, timeout=1800, shards=4)):
            bad = [(cn.get("id"), i) for cn in r.get("connections", []) for i, x in enumerate(cn["responses"])
                   if i > 0 and x.get("status") == 503 and b"x-reply-tag" not in x["raw"]]
            if bad:
                failures.append({"case": {"scenario": sc, "connection": bad[0][0], "index": bad[0][1]}, "why": F12_WHAT,
                                 "impl": e2e.statuses(r)})
                break
        ctx.log("search after the broken proof obligation: %d runs of the F12 witness, %d failing" % (len(stress), len(failures)))
    req_exprs, req_meta, resp_exprs, resp_meta = [], [], [], []
    n_pipelined = n_conn = 0
    n_f12, n_dead, n_trunc, n_noreply, n_abandoned, n_slowread = [0], [0], [0], [0], [0], [0]

    def add_request_model(case, x, up):
        if x["big_head"]:
            return
        uh = rc.hdr_list(up)
        dates = rc.values(uh, DATE)
        path, q = rc.split_target(x["target"])
        wire = [(k, rc.trim_ows(v)) for k, v in [("Host", "x")] + x["headers"]]
        small = len(x["body"]) <= MODEL_BODY_MAX
        frames = [x["body"]] if x["chunks"] is None else [x["body"][a:b] for a, b in spans(x["body"], x["chunks"])]
        req_exprs.append("c14_request_case 1%%Z %s %s %s %s %s %s" % (
            cb(dates[0] if len(dates) == 1 else "?"), cb(x["method"]), cb(path), rc.coq_opt(q), rc.coq_wire(wire),
            clist([cb(f) for f in frames], "bytes") if small else "(@nil bytes)"))
        req_meta.append((case, x, up, small))

    for s, (r, (dest, pconns)) in enumerate(zip(results, plan)):
        rp = {"scenario": e2e.jsonable(scenarios[s])}
        if not r.get("ok") or r.get("panics"):
            disagreements.append({"case": rp, "model": "scenario runs", "impl": {"error": r.get("error"), "panics": r.get("panics")}})
            continue
        if not r.get("drained"):
            # an upstream connection outlived its client connection (or never appeared): not what the model says (one upstream
            # connection per client connection, closed with it) -- recorded, and the exchanges are still judged by the predicate
            disagreements.append({"case": rp, "model": "every upstream connection is opened for one client connection and closed with it",
                                  "impl": {"drained": False, "upstream": {h: [(c["nbytes"], c["closed"]) for c in cs] for h, cs in r["upstream"].items() if cs}}})
        by_tag = {}
        for m in rc.relayed_requests(r, dest):
            for t in m["header"]("x-tag"):
                by_tag.setdefault(t, []).append(m)
        per_upstream = [[(m["header"]("x-tag") or ["?"])[0] for m in c if m] for c in e2e.upstream_messages(r, dest)]
        for ci, xs in enumerate(pconns):
            n_conn += 1
            n_pipelined += 1 if scenarios[s]["connections"][ci].get("pipelined") else 0
            cres = [c for c in r["connections"] if c.get("id") == ci]
            responses = cres[0]["responses"] if cres else []
            # keep-alive: all requests of one client connection travel on ONE upstream connection, in order
            log_text = read_connection_log(r)
            f12 = [f12_class(i, x, responses, by_tag, log_text) for i, x in enumerate(xs)]
            tags = [x["tag"] for x, k in zip(xs, f12) if not k and not x["dead"]]
            if not any(u == tags for u in per_upstream):
                failures.append({"case": dict(rp, connection=ci), "impl": per_upstream,
                                 "why": "requests %s of one keep-alive connection did not arrive in order on one upstream connection" % tags})
            for i, x in enumerate(xs):
                case = dict(rp, connection=ci, index=i, tag=x["tag"])
                if f12[i]:
                    n_f12[0] += 1
                    failures.append({"case": case, "f12": True, "why": F12_WHAT, "impl": {"status": 503, "relayed": 0}})
                    continue
                if x["dead"]:
                    # sent after the host ended the connection (and the client was told / the transfer was aborted): the proxy
                    # must not make up an answer for it
                    n_dead[0] += 1
                    if x["dead"] == "told" and i < len(responses) and responses[i].get("complete") and \
                            b"x-reply-tag" not in responses[i]["raw"].lower():
                        failures.append({"case": case, "impl": rc.short(responses[i]["raw"][:200]),
                                         "why": "response leg: the host ended the connection with an earlier response on this keep-alive "
                                                "connection, yet request %s was answered %s by the proxy itself -- the client was not "
                                                "given the host's connection-management headers / the abort" % (x["tag"], responses[i].get("status"))})
                    continue
                ups = by_tag.get(x["tag"], [])
                if len(ups) != 1:
                    failures.append({"case": case, "why": "request %s reached the host %d times" % (x["tag"], len(ups)), "impl": None})
                    continue
                up = ups[0]
                why = prop_request(x, up)
                if why:
                    failures.append({"case": case, "why": "request leg: " + why, "impl": rc.short(up["start_line"])})
                if x["kind"] == "slowread":
                    n_slowread[0] += 1
                    done = i < len(responses) and responses[i].get("complete")
                    resp = e2e.parse_http(responses[i]["raw"]) if i < len(responses) else None
                    got = len(resp["body"]) if resp else 0
                    if not done or resp is None or resp["status"] != x["status"] or resp["body"] != x["rbody"]:
                        failures.append({"case": case, "impl": {"complete": bool(done), "body_bytes_received": got,
                                                                "eof": responses[i].get("eof") if i < len(responses) else None},
                                         "why": "response leg: an exchange the proxy closes (Connection: close) with a client that starts "
                                                "reading 1.5 s after sending: the host sent %d body bytes, the client received %d%s" % (
                                                    len(x["rbody"]), got, "" if done else " and then the connection broke")})
                    add_request_model(case, x, up)
                    continue
                if x["kind"] == "abandoned":
                    n_abandoned[0] += 1           # the client went away on purpose: only the request leg is checked
                    add_request_model(case, x, up)
                    continue
                if x["kind"] == "noreply":
                    # the host took the request and died without a word: it must have seen the request exactly ONCE (checked above:
                    # a proxy that silently re-sends a request the host already read duplicates non-idempotent operations), and
                    # the client gets the proxy's own 5xx -- there is no host answer to relay
                    n_noreply[0] += 1
                    if i < len(responses) and responses[i].get("complete") and not (500 <= (responses[i].get("status") or 0) <= 599):
                        failures.append({"case": case, "impl": rc.short(responses[i]["raw"][:200]),
                                         "why": "response leg: the host dropped the connection without answering request %s, yet the "
                                                "client received status %s" % (x["tag"], responses[i].get("status"))})
                    add_request_model(case, x, up)
                    continue
                if x["kind"] == "truncated":
                    # the host died mid-body: the client may see an aborted transfer, never a well-terminated shorter body
                    n_trunc[0] += 1
                    if i < len(responses) and responses[i].get("complete"):
                        resp = e2e.parse_http(responses[i]["raw"])
                        if resp is not None and resp["body"] != x["rbody"]:
                            failures.append({"case": case, "impl": rc.short(responses[i]["raw"][-120:]),
                                             "why": "response leg: the host connection failed after %d of %d body bytes, but the client received "
                                                    "a well-terminated response with a %d-byte body (silent truncation)" % (
                                                        len(resp["body"]), len(x["rbody"]), len(resp["body"]))})
                    add_request_model(case, x, up)
                    continue
                if i >= len(responses) or not responses[i].get("complete"):
                    failures.append({"case": case, "why": "no complete response delivered for request %s" % x["tag"],
                                     "impl": responses[i] if i < len(responses) else None})
                    continue
                resp = e2e.parse_http(responses[i]["raw"], head_response=(x["method"] == "HEAD"))
                # pairing: the i-th response on this connection must be the one the host produced for the i-th request
                rt = resp["header"]("x-reply-tag") if resp else []
                if rt != [x["tag"]]:
                    failures.append({"case": case, "impl": rt,
                                     "why": "pairing: request %s received the response made for %s" % (x["tag"], rt)})
                    continue
                why = prop_response(x, resp)
                if why:
                    failures.append({"case": case, "why": "response leg: " + why, "impl": rc.short(resp["start_line"])})
                # ---- model inputs
                add_request_model(case, x, up)
                rsmall = len(x["rbody"]) <= MODEL_BODY_MAX
                rframes = [] if x["method"] == "HEAD" else \
                    [x["rbody"][a:b] for a, b in spans(x["rbody"], x["reply"].get("chunked") or [max(1, len(x["rbody"]))])]
                resp_exprs.append("c14_response_case %d%%N %s %s" % (
                    x["status"], rc.coq_wire([(k, rc.trim_ows(v)) for k, v in x["rheaders"]]),
                    clist([cb(f) for f in rframes], "bytes") if rsmall else "(@nil bytes)"))
                resp_meta.append((case, x, resp, rsmall))

    # ---------------- model ----------------
    if broken:
        req_exprs, req_meta, resp_exprs, resp_meta = [], [], [], []          # stale constants: predicate only
    mreq = vplib.coq_eval(ctx, "From GPA Require Import Relay.", req_exprs, shard=25, name="req")
    mresp = vplib.coq_eval(ctx, "From GPA Require Import Relay.", resp_exprs, shard=25, name="resp")
    ctx.log("model: %d request legs, %d response legs evaluated" % (len(mreq), len(mresp)))
    for (case, x, up, small), mo in zip(req_meta, mreq):
        if mo is None:
            disagreements.append({"case": case, "model": "502", "impl": up["start_line"]})
            continue
        mm, mt, mh, mb = mo[1]
        signed = x["key"] is not None and not rc.is_exempt(x["method"], x["sent_target"])
        skip = rc.FRAMING + ((AUTH,) if signed else ())
        # header lists are compared name by name (values in order): when hyper's client drops a framing header it
        # does so with HeaderMap::remove, a swap-remove that moves the LAST name into the gap, so the relative order
        # of different names is not stable across the leg (C05's check compares the exact order where no framing
        # header is removed)
        mine = (bytes(mm).decode("latin-1"), bytes(mt).decode("latin-1"), grouped(rc.model_headers(mh), skip)[0],
                bytes(mb) if small else x["body"])
        theirs = (up["method"], up["target"], grouped(rc.hdr_list(up), skip)[0], up["body"])
        if mine != theirs:
            disagreements.append({"case": case, "model": rc.short(mine, 1500), "impl": rc.short(theirs, 1500)})
    for (case, x, resp, rsmall), mo in zip(resp_meta, mresp):
        ms, mh, mb = mo
        mine = (ms, grouped(rc.model_headers(mh), RESP_SKIP)[0], bytes(mb) if rsmall else (b"" if x["method"] == "HEAD" else x["rbody"]))
        theirs = (resp["status"], grouped(rc.hdr_list(resp), RESP_SKIP)[0], resp["body"])
        if mine != theirs:
            disagreements.append({"case": case, "model": rc.short(mine, 1500), "impl": rc.short(theirs, 1500)})

    allx = [x for _, pconns in plan for xs in pconns for x in xs]
    ctx.coverage.update({
        "evaluations": len(allx),
        "distinct_nontrivial": len({(x["method"], x["target"], tuple(x["headers"]), x["body"], x["status"], tuple(x["rheaders"]), x["rbody"])
                                    for x in allx if x["headers"] and (x["body"] or x["rbody"])}),
        "traces_validated_against_impl": len(mreq) + len(mresp) - len(disagreements),
        "rule": "exchanges on 1-4 concurrent keep-alive connections with pipelines of 1-10 requests, each request tagged and answered by "
                "a reply scripted for that tag: 19 methods incl. extension and lower-case ones, 0-30 request headers with repeated / "
                "mixed-case / look-alike names and odd token characters, bodies 0 B-100 KiB (binary, multi-byte UTF-8, framing "
                "look-alikes) with Content-Length or chunked in adversarial chunk sizes and split TCP writes, host answers of 31 "
                "status codes with 0-20 headers, binary bodies by Content-Length / chunked (1-byte chunks) / connection close, "
                "delivered in adversarial TCP write sizes with pauses; a fifth of the answers carry hop-by-hop / connection-management headers "
                "(connection, keep-alive, upgrade, proxy-connection, te, trailer), some announce `connection: close` and close (later "
                "pipelined requests must then not be answered by the proxy), some break off in the middle of a chunked or "
                "Content-Length body (the client must not see a well-terminated shorter body); non-trivial = has headers and a body on some leg",
        "exhaustive": False,
        "samples": [{"request": "%s %s" % (x["method"], x["target"]), "request_headers": len(x["headers"]), "request_body": len(x["body"]),
                     "chunks": x["chunks"] if x["chunks"] is None else x["chunks"][:6], "status": x["status"],
                     "response_body": len(x["rbody"]), "reply_framing": {k: (v if not isinstance(v, list) else v[:6])
                                                                           for k, v in x["reply"].items() if k in ("chunked", "write_sizes", "close")}}
                    for x in allx[:3]],
        "input_distribution": {"scenarios": len(scenarios), "client_connections": n_conn, "pipelined_connections": n_pipelined,
                               "exchanges": len(allx), "chunked_requests": sum(1 for x in allx if x["chunks"] is not None),
                               "request_bytes": sum(len(x["body"]) for x in allx), "response_bytes": sum(len(x["rbody"]) for x in allx),
                               "chunked_replies": sum(1 for x in allx if "chunked" in x["reply"]),
                               "segmented_replies": sum(1 for x in allx if "write_sizes" in x["reply"]),
                               "with_latched_key": sum(1 for x in allx if x["key"]),
                               "known_finding_F12_occurrences": n_f12[0],
                               "replies_with_hop_by_hop_headers": sum(1 for x in allx if any(k.lower() in (
                                   "connection", "keep-alive", "upgrade", "proxy-connection", "te", "trailer") for k, _ in x["rheaders"])),
                               "replies_announcing_connection_close": sum(1 for x in allx if x["kind"] == "connclose"),
                               "replies_truncated_mid_body": n_trunc[0], "requests_the_host_dropped_without_answer": n_noreply[0],
                               "connection_close_exchanges_with_a_slow_reader_1MiB": n_slowread[0],
                               "scenarios_attributed_to_a_caller_with_control_characters_in_its_command_line": n_odd[0],
                               "provision_look_alike_targets": sum(1 for x in allx if "provision" in x["target"].lower()),
                               "downloads_abandoned_by_one_client_while_another_uses_the_same_endpoint": n_abandoned[0],
                               "exempt_uploads_over_100KiB": sum(1 for x in allx if len(x["body"]) > 102400),
                               "requests_with_30_70KB_header_block": sum(1 for x in allx if x["big_head"]),
                               "bodyless_methods_carrying_a_body": sum(1 for x in allx if x["body"] and x["method"] in ("GET", "HEAD", "OPTIONS", "TRACE", "get")), "requests_after_the_host_ended_the_connection": n_dead[0]},
    })
    ctx.assumptions += [
        "hyper's HTTP/1.1 parsing and framing on both legs are outside the model; the comparison is modulo Content-Length / "
        "Transfer-Encoding / Date headers, and header NAMES arrive lower-cased (HTTP treats them as equal)",
        "the relative order of DIFFERENT header names is not compared in this check (hyper removes framing headers with a "
        "swap-remove that reorders names); per name, the values and their order are compared exactly",
        "a '#fragment' in a request target is dropped by http::Uri before the handler sees it (observed; not part of path or query)",
        "response trailers are replaced by an empty data frame by forward_response (modelled in Relay.map_frame; not exercised: "
        "hyper's HTTP/1.1 client does not surface trailers to map_frame in this configuration)",
        "finding F12 (a send_request overtaking hyper's readiness signal: spurious 503 on pipelines, a few runs per hundred) was "
        "repaired by fix commit cdcae0b; an exchange of that class is recognised (f12_class) and reported as a violation with its "
        "scenario as replay -- being a race, it may need several runs of the replay to show again",
        "FIFO pairing is proved for the model's mutex protocol; the run checks it on real pipelines by tags "
        "(hyper's server also serialises the requests of one connection, so the mutex is never contended in practice)",
    ]
    verdict(ctx, proofs_ok, detail, disagreements, failures, known_filter,
            corr_name="Relay.upstream_of / client_resp_of vs ProxyServer relay path (raw bytes at the mock host and at the client)")


def spans(body, sizes):
    """(start, end) of the chunks http_request / build_reply cut `body` into for the size list `sizes` (last repeats)"""
    out, pos, i = [], 0, 0
    while pos < len(body):
        n = max(1, sizes[min(i, len(sizes) - 1)]) if sizes else len(body)
        out.append((pos, min(len(body), pos + n)))
        pos += n
        i += 1
    return out


if __name__ == "__main__":
    # replay of finding F12: python3 tools/checks/c14.py [runs]  -- the corpus scenario N times on the real proxy
    import json
    import os
    import sys
    n = int(sys.argv[1]) if len(sys.argv) > 1 else 120
    sc = json.load(open(os.path.join(vplib.VERIF, "corpus", "C14", "f12_not_ready.json")))
    c = vplib.Ctx("C14replay", "quick", 1)
    try:
        rs = e2e.run_scenarios(c, [dict(sc, name="run %d" % i) for i in range(n)], shards=4)
        hit = [r["name"] for r in rs if any(x.get("status") == 503 and b"x-reply-tag" not in x["raw"]
                                            for cn in r["connections"] for x in cn["responses"])]
        print("F12 witness: %d of %d runs answered 503 to a pipelined request that was never relayed: %s" % (len(hit), n, hit[:10]))
    finally:
        c.cleanup()
