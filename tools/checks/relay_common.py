"""Helpers shared by the three relay-path checks C05, C14, C15 (all on tools/e2e.py)."""
import calendar
import re
import time

import e2e
from vplib import cb, clist

CLAIMS = "x-ms-azure-host-claims"
DATE = "x-ms-azure-host-date"
AUTH = "x-ms-azure-host-authorization"
OWNED = (CLAIMS, DATE, AUTH)
SCHEME = "Azure-HMAC-SHA256"
# headers that describe the message framing of ONE leg; hyper regenerates them (the property allows it)
FRAMING = ("content-length", "transfer-encoding")
# the two signature-exempt uploads as the PROPERTY TEXTS name them (C04 / C15): method, lower-case url
EXEMPT = (("PUT", "/vmagentlog"), ("POST", "/machine/?comp=telemetrydata"))
RFC1123 = re.compile(r"^(Mon|Tue|Wed|Thu|Fri|Sat|Sun), (\d{2}) (Jan|Feb|Mar|Apr|May|Jun|Jul|Aug|Sep|Oct|Nov|Dec) (\d{4}) "
                     r"(\d{2}):(\d{2}):(\d{2}) GMT$")
MONTHS = ["Jan", "Feb", "Mar", "Apr", "May", "Jun", "Jul", "Aug", "Sep", "Oct", "Nov", "Dec"]
DAYS = ["Mon", "Tue", "Wed", "Thu", "Fri", "Sat", "Sun"]


def claims_text(elevated):
    """the claims value the property demands for a caller that is / is not elevated"""
    return '{ "isRoot": "%s"}' % ("true" if elevated else "false")


def rfc1123(t):
    g = time.gmtime(t)
    return "%s, %02d %s %04d %02d:%02d:%02d GMT" % (DAYS[g.tm_wday], g.tm_mday, MONTHS[g.tm_mon - 1], g.tm_year,
                                                    g.tm_hour, g.tm_min, g.tm_sec)


def parse_rfc1123(s):
    m = RFC1123.match(s or "")
    if not m:
        return None
    try:
        return calendar.timegm((int(m.group(4)), MONTHS.index(m.group(3)) + 1, int(m.group(2)),
                                int(m.group(5)), int(m.group(6)), int(m.group(7)), 0, 0, 0))
    except (ValueError, OverflowError):
        return None


def rand_case(rng, s):
    return "".join(c.upper() if rng.random() < 0.5 else c.lower() for c in s)


def is_exempt(method, target):
    """property-level reading of "the two exempt log/telemetry uploads": exact method, url compared
    case-insensitively as one string (fragment is not part of a request target)"""
    return (method, target.lower()) in EXEMPT


def split_target(target):
    """origin-form target -> (path, query or None) the way http::Uri exposes it (a '#fragment' is dropped)"""
    t = target.split("#", 1)[0]
    if "?" in t:
        p, q = t.split("?", 1)
        return p, q
    return t, None


def l1(x):
    """str -> the bytes it stands for on the wire (header text is handled as latin-1 throughout: one char = one byte)"""
    return x.encode("latin-1") if isinstance(x, str) else x


def coq_wire(headers):
    """[(name, value)] (latin-1 str or bytes) -> Coq list (bytes * bytes)"""
    return clist(["(%s, %s)" % (cb(l1(k)), cb(l1(v))) for k, v in headers], "(bytes * bytes)")


def coq_opt(x):
    return "(@None bytes)" if x is None else "(Some %s)" % cb(l1(x))


def model_headers(parsed):
    """Coq list of (list N * list N) as parsed by vplib.parse_coq -> [(str, str)]"""
    return [(bytes(k).decode("latin-1"), bytes(v).decode("latin-1")) for k, v in parsed]


def to_bytes(parsed):
    return bytes(parsed)


def hdr_list(msg):
    """wire-order [(lower-case name, value)] of a parsed HTTP message"""
    return [(k.lower(), v if v is not None else "") for k, v in msg["headers"]]


def drop(headers, names):
    return [(k, v) for k, v in headers if k not in names]


def values(headers, name):
    return [v for k, v in headers if k == name]


def trim_ows(v):
    return v.strip(" \t")


def relayed_requests(result, host):
    """all complete requests the mock at `host` saw, flattened in accept order"""
    return [m for c in e2e.upstream_messages(result, host) for m in c if m is not None]


def short(x, n=300):
    s = repr(x)
    return s if len(s) <= n else s[:n] + "..."


def gen_consts_or_search(ctx):
    """vplib.gen_consts, but a translator failure (a construct it parses is gone) does not end the run: the caller goes on with the
    end-to-end run and the property predicate to look for a concrete failing input; the proofs then count as not discharged.
    Returns None, or the translator's message."""
    import vplib
    try:
        vplib.gen_consts(ctx)
        return None
    except vplib.Violation as v:
        ctx.log("constants translator failed; searching for a failing input with the property predicate: %s" % str(v)[:300])
        return "constants translator failed (%s): no theorem is re-proved against the current sources" % str(v)[:500]
