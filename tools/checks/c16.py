"""C16 -- Provisioning status is truthful under any arrival order.

Model: coq/Model/Provision.v over the generic interleaving semantics coq/Model/Sched.v; theorems:
coq/Props/C16.v; implementation: the real provision.rs / provision_wrapper.rs futures polled by hand
under chosen schedules, the real /provision HTTP handler of proxy_server.rs, the real
write_provision_state under strace (syscall order, kill points) and from two worker threads, all
through harness/src/bin/c16.rs.

Legs
  probe    which code variant is under test (tick stamped inside the actor? zero tick guarded?);
           the model is instantiated with that variant, anything else is a correspondence break
  sched    hand-polled schedules (exhaustive families + random), model vs code step by step:
           flags, tick (as the index of the step that stamped it), every query's answer, number of
           await points of every future, status.tag; the property predicates on the code's behaviour
  http     the real listener: finished := tick >= query tick || latched, header parsing
  strace   syscall order of write_provision_state; SIGKILL before each syscall: old or new content;
           environment faults (RLIMIT_FSIZE makes the temp write fail part-way; read-only directory)
  burst    an operation is sent while the provision actor's mailbox is full of status queries: every
           report / reset whose future completed must be reflected in the flags
  threads  F11: two real writers + a reader (reported as a known finding when it shows)
"""
import itertools
import json
import os
import re
import shutil
import subprocess
import time

import vplib
from vplib import cb, clist
from checks.common import verdict

ALL = 7
FLAG = {"R": 1, "K": 2, "L": 4}
MODS = [("R", 1), ("K", 2), ("L", 4)]
COQ_MOD = {"R": "MRedirector", "K": "MKeyKeeper", "L": "MProxyServer"}
COQ_FLAG = {"R": "F_R", "K": "F_K", "L": "F_L"}
UNKNOWN_MSG = "Status unknown."
MAXP = 12           # more polls than any single future needs (10 actor calls + 1)
FUTURE = 10 ** 30   # a query tick far in the future


# ------------------------------------------------------------------------------------------------
# expected texts, written from the property / the documented format, not from the model
# ------------------------------------------------------------------------------------------------
def consts():
    import gen_consts
    _, ints, strs, _ = gen_consts.generate()
    return ints, strs


def cut(msg, limit):
    return msg[:limit] + "..." if len(msg) > limit else msg


def error_text(flags, msgs, strs, limit):
    out = ""
    for name, bit in MODS:
        if flags & bit == 0:
            key = {"R": "redirector_ready", "K": "key_latch_ready", "L": "listener_ready"}[name]
            out += strs["provision_line_prefix_" + key] + cut(msgs[name], limit) + strs["provision_line_suffix_" + key]
    return out


# the property's own vocabulary: which words of the error text name which subsystem
LABEL = {"R": "ebpfProgramStatus", "K": "keyLatchStatus", "L": "proxyListenerStatus"}


def named(err):
    """the set of subsystems an error text names"""
    return {m for m in "RKL" if LABEL[m] in err}


def missing(flags):
    return {m for m, bit in MODS if flags & bit == 0}


def xml_escape(s):
    return (s.replace("&", "&amp;").replace("'", "&apos;").replace('"', "&quot;")
            .replace("<", "&lt;").replace(">", "&gt;"))


# ------------------------------------------------------------------------------------------------
# scenarios -> driver JSON and Coq terms
# ------------------------------------------------------------------------------------------------
def coq_z(n):
    return "(%d)%%Z" % n


def coq_world(setup):
    msgs = "default_msgs"
    for k, v in sorted(setup.get("msgs", {}).items()):
        msgs = "(set_msg %s %s %s)" % (msgs, COQ_MOD[k], cb(v))
    tag0 = "(Some %s)" % cb(setup["old_tag"]) if setup.get("old_tag") is not None else "(@None bytes)"
    return "(init_world %s %s %s %s)" % ("true" if setup.get("evt", True) else "false", msgs,
                                         cb(setup.get("chan", "Unknown")), tag0)


def coq_qkind(q):
    if q == "now":
        return "QNow"
    if q.startswith("const:"):
        return "(QConst %s)" % coq_z(int(q[6:]))
    return "(QTick %s)" % coq_z({"tick": 0, "tick+1": 1, "tick-1": -1}[q])


def coq_op(t):
    o = t["op"]
    if o == "report":
        return "(OpReport %s)" % COQ_FLAG[t["flag"]]
    if o == "reset":
        return "OpReset"
    if o == "timeup":
        return "OpTimeup"
    if o == "query":
        return "(OpQuery %s)" % coq_qkind(t["q"])
    if o == "setchan":
        return "(OpSetChan %s)" % cb(t["v"])
    if o == "setmsg":
        return "(OpSetMsg %s %s)" % (COQ_MOD[t["m"]], cb(t["v"]))
    raise ValueError(o)


def coq_variant(var):
    return "{| v_atomic := %s; v_guard := %s; v_lock := %s |}" % (
        "true" if var["atomic"] else "false", "true" if var["guard"] else "false", "true" if var.get("lock", True) else "false")


PRELUDE = """
(* canonical, compactly printed form of an observation (printing numerals is what costs time in
   coqc): ticks become the index of the step that stamped them, the per-step list is printed as its
   list of changes, texts as hex strings *)
Definition hexdigit (n : N) : ascii := ascii_of_N (if (n <? 10)%N then (48 + n)%N else (87 + n)%N).
Definition hex_bytes (b : bytes) : string :=
  fold_right (fun x acc => String (hexdigit (x / 16)%N) (String (hexdigit (x mod 16)%N) acc)) EmptyString b.
Definition hex_obytes (b : option bytes) : option string := option_map hex_bytes b.
Fixpoint rank_in (tk prev : Z) (nows : list Z) (i : N) : N :=
  match nows with
  | [] => 65535%N
  | n :: tl => if ((prev <? tk) && (tk <=? n))%Z then i else rank_in tk n tl (i + 1)%N
  end.
Definition rank (tk : Z) (nows : list Z) : N := if (tk =? 0)%Z then 0%N else rank_in tk 0%Z nows 1%N.
Definition cmp_code (a b : Z) : N := match (a ?= b)%Z with Lt => 0%N | Eq => 1%N | Gt => 2%N end.
Definition canon_result (nows : list Z) (r : option result) : option (N * string * N * N * N) :=
  match r with
  | None => None
  | Some RDone => Some (9%N, EmptyString, 0%N, 0%N, 0%N)
  | Some (RQuery fin err q tk fl la) =>
      Some ((if fin then 1%N else 0%N), hex_bytes err, rank tk nows, cmp_code tk q, (if la then 1%N else 0%N))
  end.
Fixpoint changes (prev i : N) (l : list N) : list (N * N) :=
  match l with
  | [] => []
  | x :: tl => if (x =? prev)%N then changes prev (i + 1)%N tl else (i, x) :: changes x (i + 1)%N tl
  end.
Definition obs_tuple (o : observation) :=
  let nows := map (fun s => snd s) (o_snaps o) in
  (N.of_nat (List.length (o_snaps o)),
   changes 1073741824%N 0%N (map (fun s => (fst (fst s) + 8 * rank (snd (fst s)) nows)%N) (o_snaps o)),
   map (canon_result nows) (o_results o), map N.of_nat (o_awaits o),
   (o_prov o, hex_obytes (o_tmp o), hex_obytes (o_tag o)), (o_evt o, o_stale o, o_overlap o)).
"""

REQUIRES = "From Coq Require Import List NArith ZArith String Ascii.\nImport ListNotations.\nFrom GPA Require Import Provision."


def rank(value, bounds):
    """index (1-based) of the step whose (lo, hi] clock interval contains value; 0 for the zero tick; -1 unknown"""
    if value == 0:
        return 0
    for i, (lo, hi) in enumerate(bounds):
        if lo < value <= hi:
            return i + 1
    return -1


def sign(x):
    return (x > 0) - (x < 0)


def coq_observe(var, sc):
    return "obs_tuple (observe %s %s %s %s)" % (
        coq_variant(var), coq_world(sc["setup"]), clist([coq_op(t) for t in sc["tasks"]], "op"),
        clist(["%d%%nat" % t for t in sc["sched"]], "nat"))


def b2s(l):
    if l is None:
        return None
    if isinstance(l, tuple) and l and l[0] == "Some":
        l = l[1]
    return bytes(l).decode("utf-8", "replace")


def unhex(p):
    if p is None:
        return None
    if isinstance(p, tuple) and p and p[0] == "Some":
        p = p[1]
    return bytes.fromhex(p).decode("utf-8", "replace")


def canon_model(sc, obs, var):
    nsteps, chg, results, awaits, (prov, tmp, tag), (evt, stale, overlap) = obs
    steps, cur, chg = [], None, dict(chg)
    for i in range(nsteps):
        cur = chg.get(i, cur)
        r = cur >> 3
        steps.append((cur & 7, -1 if r == 65535 else r))
    res = []
    for r in results:
        if r is None:
            res.append(None)
            continue
        _, (fin, err, rk, cmpc, la) = r
        if fin == 9:
            res.append("done")
        else:
            res.append({"fin": fin == 1, "err": unhex(err), "tick_step": -1 if rk == 65535 else rk,
                        "cmp": cmpc - 1, "latched": la == 1})
    return {"steps": steps, "results": res, "awaits": list(awaits), "prov": prov, "tmp": unhex(tmp),
            "tag": unhex(tag), "evt": evt}, {"stale": stale, "overlap": overlap}


def fin_formula(var, tick, q, latched):
    """proxy_server.rs handle_provision_state_check_request, as exhibited by the variant under test
    (the http leg checks the real handler against exactly this)"""
    return ((not var["guard"] or tick != 0) and tick >= q) or latched


def canon_impl(sc, out, var):
    bounds = [(int(s["c0"]), int(s["c1"])) for s in out["steps"]]
    steps = [(s["flags"], rank(int(s["tick"]), bounds)) for s in out["steps"]]
    res, awaits = [], []
    for i, t in enumerate(sc["tasks"]):
        polls = out["polls"][i]
        if not out["done"][i]:
            res.append(None)
            awaits.append(polls + (1 if t["op"] == "query" and out["qticks"][i] is not None else 0))
            continue
        if t["op"] == "query":
            r = out["results"][i]
            tk, q = int(r["tick"]), int(r["q"])
            res.append({"fin": fin_formula(var, tk, q, r["latched"]), "err": r["err"], "tick_step": rank(tk, bounds),
                        "cmp": sign(tk - q), "latched": r["latched"]})
            awaits.append(polls - 1 + 1)      # + the creation step
        else:
            res.append("done")
            awaits.append(polls - 1)
    fs = out["fs"]
    return {"steps": steps, "results": res, "awaits": awaits, "prov": fs["provisioned"], "tmp": fs["tmp"],
            "tag": fs["tag"], "evt": out["evt"]}


# ------------------------------------------------------------------------------------------------
# the property, evaluated on the code's observed behaviour (hand-polled runs)
# ------------------------------------------------------------------------------------------------
def message_kinds(sc, out):
    """which actor message each step processed, derived from the op and the poll count (the
    implementation's await structure is itself compared with the model separately)"""
    polls = [0] * len(sc["tasks"])
    created = [False] * len(sc["tasks"])
    kinds = []
    for s in out["steps"]:
        tid = s["tid"]
        t = sc["tasks"][tid]
        if s["noop"]:
            kinds.append(None)
            continue
        if t["op"] == "query" and not created[tid]:
            created[tid] = True
            kinds.append(("qcreate", tid))
            continue
        polls[tid] += 1
        kinds.append((t["op"], tid, polls[tid]))
    return kinds


def property_failures(sc, out, var, strs, limit):
    fails = []
    steps = out["steps"]
    kinds = message_kinds(sc, out)
    n = len(steps)
    flags_before = [out["init"]["flags"]] + [s["flags"] for s in steps]       # flags before step j
    tick_before = [int(out["init"]["tick"])] + [int(s["tick"]) for s in steps]
    c1 = [int(s["c1"]) for s in steps]

    # (1) no lost update: flags after every step = OR of the reports / AND-NOT of the resets processed
    fl = out["init"]["flags"]
    for j, k in enumerate(kinds):
        if k and k[0] == "report" and k[2] == 1:
            fl |= FLAG[sc["tasks"][k[1]]["flag"]]
        if k and k[0] == "reset" and k[2] == 1:
            fl &= ~FLAG["K"]
        if steps[j]["flags"] != fl:
            fails.append({"why": "lost update: flags %d after step %d, the reports/resets processed so far give %d" % (steps[j]["flags"], j, fl),
                          "kind": "lost-update"})
            break

    # instants: deadline stamps and stale stamps
    timeup_stamps, stale = [], False
    for j, k in enumerate(kinds):
        if k and k[0] == "timeup" and k[2] == 2 and int(steps[j]["tick"]) != tick_before[j]:
            timeup_stamps.append(int(steps[j]["tick"]))
        if k and k[0] == "report" and k[2] == 2 and int(steps[j]["tick"]) != tick_before[j] and flags_before[j] != ALL:
            stale = True   # a reporter's SetProvisionFinished(true) processed while the flags are not ALL_READY

    # status messages in effect over time (setmsg ops processed at their first poll)
    msgs0 = {m: sc["setup"].get("msgs", {}).get(m, UNKNOWN_MSG) for m in "RKL"}
    msg_hist = [dict(msgs0)]
    cur = dict(msgs0)
    for j, k in enumerate(kinds):
        if k and k[0] == "setmsg" and k[2] == 1:
            cur = dict(cur)
            cur[sc["tasks"][k[1]]["m"]] = sc["tasks"][k[1]]["v"]
        msg_hist.append(cur)

    first_poll, last_poll = {}, {}
    for j, k in enumerate(kinds):
        if k and k[0] == "query":
            first_poll.setdefault(k[1], j)
            last_poll[k[1]] = j
    for tid, t in enumerate(sc["tasks"]):
        if t["op"] != "query" or not out["done"][tid]:
            continue
        r = out["results"][tid]
        q, tk = int(r["q"]), int(r["tick"])
        fin = fin_formula(var, tk, q, r["latched"])
        j0, j1 = first_poll[tid], last_poll[tid]
        # (2) finished only if latched, or at some instant t >= q (and before the answer) all three
        #     were ready or the deadline handler stamped
        if fin and not r["latched"]:
            ok = any(ts >= q for ts in timeup_stamps if ts <= c1[j1])
            for j in range(0, j1 + 2):          # state before step j, j = 0 .. j1+1
                if flags_before[j] != ALL:
                    continue
                end = c1[j] if j < n else None   # that state ended during step j at the latest by c1[j]
                if end is None or end >= q:
                    ok = True
            if not ok:
                fails.append({"why": "query %d (tick %d) answered finished=true although not latched and at no instant >= its tick were all three ready or the deadline stamped (answer tick %d, errorMessage %r)" % (tid, q, tk, r["err"]),
                              "kind": "untruthful", "q": q, "stale": stale, "tid": tid})
        # (3) the error text names exactly the subsystems missing in ONE flags value the query could
        #     have seen; empty iff that value is ALL_READY.  (The exact wording is compared with the
        #     model; the property only cares about which subsystems are named.)
        window = [flags_before[j] for j in range(j0, j1 + 2)]
        if not any(named(r["err"]) == missing(f) and ((r["err"] == "") == (f == ALL)) for f in window):
            fails.append({"why": "query %d: errorMessage %r names %s, but the flags during the query were %s (missing %s)" % (
                              tid, r["err"], sorted(named(r["err"])), sorted(set(window)), [sorted(missing(f)) for f in sorted(set(window))]),
                          "kind": "error-text"})
        # (3b) "finished" and the error text must describe the same query: when the answer is finished
        #      because of the tick, the flags snapshot the text was built from must be at least as fresh as
        #      the tick (some poll of the query at which the text fits the flags, at or after some poll at
        #      which the actor's tick was the one answered).  Otherwise the answer says finished=true next
        #      to a text naming a subsystem that had become ready by the time "finished" was sampled.
        if fin and not r["latched"] and tk != 0:
            qpolls = [j for j, k in enumerate(kinds) if k and k[0] == "query" and k[1] == tid]
            j_tick = [j for j in qpolls if int(steps[j]["tick"]) == tk]
            j_text = [j for j in qpolls if named(r["err"]) == missing(steps[j]["flags"]) and ((r["err"] == "") == (steps[j]["flags"] == ALL))]
            if j_tick and j_text and max(j_text) < min(j_tick):
                ready_named = sorted(named(r["err"]) - missing(steps[min(j_tick)]["flags"]))
                fails.append({"why": "query %d answered finished=true (tick %d) together with errorMessage %r: the text fits the flags only up to step %d, the tick exists only from step %d on, when %s %s already ready (flags %d)" % (
                                  tid, tk, r["err"], max(j_text), min(j_tick), ready_named, "is" if len(ready_named) == 1 else "are", steps[min(j_tick)]["flags"]),
                              "kind": "stale-text"})
    # (4) status.tag: absent / the old content / a complete (escaped) text of some flags value; never a temp left over
    fs = out["fs"]
    if fs["tmp"] is not None:
        fails.append({"why": "status.tag.tmp left behind with %r" % fs["tmp"], "kind": "tag"})
    if fs["tag"] is not None and fs["tag"] != sc["setup"].get("old_tag"):
        if not any(named(fs["tag"]) == missing(f) and ((fs["tag"] == "") == (f == ALL)) for f in set(flags_before)):
            fails.append({"why": "status.tag holds %r which names %s; the flags were only ever %s" % (fs["tag"], sorted(named(fs["tag"])), sorted(set(flags_before))),
                          "kind": "tag"})
    # (5) status.tag follows the outcome: when the last thing that happened to the provision is a readiness
    #     report that completed ALL_READY (its future ran to the end, no reset after it, no deadline handler
    #     still running at that point), a status.tag that still carries a failure text contradicts what
    #     /provision now answers (finished, empty error text)
    all_ready_steps = [j for j, k in enumerate(kinds) if k and k[0] == "report" and k[2] == 1 and steps[j]["flags"] == ALL]
    if all_ready_steps and fs["tag"]:
        a = max(all_ready_steps)
        last_step = {}
        for j, k in enumerate(kinds):
            if k and k[0] != "qcreate":
                last_step[k[1]] = j
        resets_after = [j for j, k in enumerate(kinds) if k and k[0] == "reset" and j > a]
        writers = {kinds[j][1] for j in all_ready_steps} | {t for t, tk_ in enumerate(sc["tasks"]) if tk_["op"] == "timeup"}
        # another writer still on its way at that point may publish its older text afterwards
        timeups_late = [t for t in writers if t != kinds[a][1] and last_step.get(t, -1) > a]
        if not resets_after and not timeups_late and out["done"][kinds[a][1]] and steps[-1]["flags"] == ALL:
            fails.append({"why": "status.tag still holds the failure text %r although task %d's readiness report completed ALL_READY afterwards (step %d), ran to its end, and nothing reset a flag since: the file names %s while /provision answers finished with an empty error text" % (
                              fs["tag"], kinds[a][1], a, sorted(named(fs["tag"]))),
                          "kind": "tag-stale"})
    return fails, stale


# ------------------------------------------------------------------------------------------------
# schedule families
# ------------------------------------------------------------------------------------------------
def interleavings(counts):
    """all sequences containing tid i exactly counts[i] times (dict tid -> count)"""
    tids = sorted(counts)

    def rec(rem, acc):
        if not any(rem.values()):
            yield list(acc)
            return
        for t in tids:
            if rem[t]:
                rem[t] -= 1
                acc.append(t)
                yield from rec(rem, acc)
                acc.pop()
                rem[t] += 1
    yield from rec(dict(counts), [])


def complete(sched, ntasks):
    return sched + [t for t in range(ntasks) for _ in range(MAXP)]


def family(prelude_ops, inter_ops, caps, setup):
    """prelude ops run to completion first, then every interleaving of the first caps[i] polls of the
    interleaved ops, then everything runs to completion in task order"""
    tasks = prelude_ops + inter_ops
    pre = [t for t in range(len(prelude_ops)) for _ in range(MAXP)]
    base = len(prelude_ops)
    for seq in interleavings({base + i: c for i, c in enumerate(caps)}):
        yield {"kind": "sched", "setup": setup, "tasks": tasks, "sched": complete(pre + seq, len(tasks))}


def rep(f):
    return {"op": "report", "flag": f}


def qry(q):
    return {"op": "query", "q": q}


RESET = {"op": "reset"}
TIMEUP = {"op": "timeup"}


def gen_cases(ctx):
    rng = ctx.rng
    quick = ctx.quick
    setups = [
        {"evt": True, "chan": "Unknown"},
        {"evt": True, "chan": "disabled", "msgs": {"K": "kmsg"}},
        {"evt": True, "chan": "disabled", "msgs": {"K": "a<b>&\"q'", "R": "r"}, "old_tag": "OLD"},
    ]
    fams = {}
    # A: K, L reported; R (update, stamp) x reset (reset, zero) x one query -- the F10 neighbourhood, exhaustive
    fams["A"] = [c for qk in (["now", "const:0"] if quick else ["now", "const:0", "tick", "tick+1", "const:%d" % FUTURE])
                 for c in family([rep("K"), rep("L")], [rep("R"), RESET, qry(qk)], [2, 2, 3], setups[1])]
    # B: L reported; R, K, reset, query
    fams["B"] = list(family([rep("L")], [rep("R"), rep("K"), RESET, qry("now")], [2, 2, 2, 3], setups[0]))
    # C: K, L reported; R, reset, deadline, query
    fams["C"] = list(family([rep("K"), rep("L")], [rep("R"), RESET, TIMEUP, qry("now")], [2, 2, 2, 3], setups[2]))
    # D: R, L reported; key_latched, reset, key_latched again, query
    fams["D"] = list(family([rep("R"), rep("L")], [rep("K"), RESET, rep("K"), qry("now")], [2, 2, 2, 3], setups[1]))
    # E: two queries
    fams["E"] = list(family([rep("K"), rep("L")], [rep("R"), RESET, qry("now"), qry("tick")], [2, 2, 3, 3], setups[1])) if not quick else []
    # Q: ONE query polled by hand with the last report (and a reset) injected after each of its polls
    fams["Q"] = []
    for x in "RKL":
        others = [rep(f) for f in "RKL" if f != x]
        for setup in (setups[0], setups[1]):
            fams["Q"] += list(family(others, [rep(x), qry("now")], [1, 8], setup))
        fams["Q"] += list(family(others, [rep(x), dict(RESET), qry("now")], [1, 1, 8], setups[1]))
        fams["Q"] += list(family(others, [rep(x), dict(TIMEUP), qry("now")], [1, 2, 6], setups[2])) if not quick else []
    # S: the whole life of the last reporter (6 polls) against one reset and the CREATION of a query that is
    #     answered only after everything else completed: any late / second stamp of the tick is exposed
    fams["S"] = []
    for x in "RKL":
        others = [rep(f) for f in "RKL" if f != x]
        fams["S"] += list(family(others, [rep(x), dict(RESET), qry("now")], [6, 1, 1], setups[1]))
    cases, dist = [], {}
    take = {"A": None, "B": 300, "C": 300, "D": 200, "E": 0, "Q": None, "S": None} if quick else {"A": None, "B": None, "C": None, "D": 3000, "E": 3000, "Q": None, "S": None}
    for name, lst in fams.items():
        k = take[name]
        sel = lst if k is None or k >= len(lst) else rng.sample(lst, k)
        dist["family_" + name] = {"selected": len(sel), "of": len(lst)}
        cases += sel
    # random general scenarios
    nrand = 400 if quick else 3000
    qkinds = ["now", "now", "const:0", "const:-7", "const:%d" % FUTURE, "tick", "tick+1", "tick-1"]
    for _ in range(nrand):
        tasks = [rep("R"), rep("K"), rep("L")]
        rng.shuffle(tasks)
        if rng.random() < 0.5:
            tasks.append(rep("K"))
        tasks += [dict(RESET) for _ in range(rng.choice([0, 1, 1, 2]))]
        if rng.random() < 0.5:
            tasks.append(dict(TIMEUP))
        tasks += [qry(rng.choice(qkinds)) for _ in range(rng.choice([1, 1, 2]))]
        if rng.random() < 0.3:
            tasks.append({"op": "setchan", "v": rng.choice(["disabled", "WireServer Enforce -  IMDS Audit", "Unknown"])})
        if rng.random() < 0.3:
            tasks.append({"op": "setmsg", "m": rng.choice("RKL"), "v": rng.choice(["changed", "x" * 1100, "<&>"])})
        rng.shuffle(tasks)
        setup = dict(rng.choice(setups))
        if rng.random() < 0.1:
            setup = dict(setup, msgs={"K": "y" * 1030})
        pool = []
        for i, t in enumerate(tasks):
            pool += [i] * rng.randint(1, {"report": 4, "reset": 3, "timeup": 4, "query": 6, "setchan": 3, "setmsg": 2}[t["op"]])
        rng.shuffle(pool)
        cases.append({"kind": "sched", "setup": setup, "tasks": tasks, "sched": complete(pool, len(tasks))})
    for order in itertools.permutations("RKL"):
        tasks = [rep(order[0]), rep(order[1]), dict(TIMEUP), rep(order[2]), qry("now"), rep("K"), qry("tick")]
        cases.append({"kind": "sched", "setup": setups[1], "tasks": tasks, "sched": [t for t in range(len(tasks)) for _ in range(MAXP)]})
    dist["deadline_then_success_sequential"] = 6
    dist["random_general"] = nrand
    return cases, dist


def gen_http(ctx):
    rng = ctx.rng
    n = 25 if ctx.quick else 200
    qspecs = ["none", "now", "now", "raw:abc", "raw:0", "raw:-3", "const:%d" % FUTURE, "tick", "tick+1", "tick-1"]
    scs = []
    for i in range(n):
        ops = []
        for _ in range(rng.randint(6, 14)):
            r = rng.random()
            if r < 0.45:
                ops.append({"op": "httpquery", "q": rng.choice(qspecs), "notify": rng.random() < 0.2})
            elif r < 0.6:
                ops.append(rep(rng.choice("RK")))
            elif r < 0.72:
                ops.append(dict(RESET))
            elif r < 0.8:
                ops.append(dict(TIMEUP))
            elif r < 0.92:
                ops.append({"op": "setchan", "v": rng.choice(["disabled", "WireServer Enforce -  IMDS Audit", "Unknown"])})
            else:
                ops.append({"op": "setmsg", "m": rng.choice("RK"), "v": rng.choice(["changed", "<&>"])})
        if i == 0:   # a fixed scenario with every boundary
            ops = [{"op": "httpquery", "q": "none"}, {"op": "httpquery", "q": "now"}, {"op": "httpquery", "q": "now", "metadata": False},
                   rep("R"), rep("K"), {"op": "httpquery", "q": "tick"}, {"op": "httpquery", "q": "tick+1"},
                   {"op": "httpquery", "q": "tick-1"}, {"op": "httpquery", "q": "now"},
                   {"op": "setchan", "v": "WireServer Enforce -  IMDS Audit"}, {"op": "httpquery", "q": "now"},
                   {"op": "setchan", "v": "disabled"}, {"op": "httpquery", "q": "now"}, dict(RESET),
                   {"op": "httpquery", "q": "raw:-5"}, dict(TIMEUP), {"op": "httpquery", "q": "tick"}, {"op": "httpquery", "q": "tick+1"}]
        if i == 1:   # a slow provision: the deadline writes the failure text, the subsystems become ready afterwards
            ops = [dict(TIMEUP), {"op": "httpquery", "q": "now"}, rep("R"), rep("K"), {"op": "httpquery", "q": "now"},
                   {"op": "httpquery", "q": "tick"}, rep("K"), {"op": "httpquery", "q": "tick"}]
        scs.append({"kind": "http", "setup": {"evt": True, "chan": rng.choice(["Unknown", "disabled"])}, "ops": ops})
    return scs


def gen_burst(ctx):
    """an operation arrives while the provision actor's 100-slot mailbox is full of status queries"""
    rng = ctx.rng
    scs = []
    perms = list(itertools.permutations("RKL"))
    n = 18 if ctx.quick else 80
    for i in range(n):
        order = perms[i % 6]
        ops = [dict(rep(f), burst=0) for f in order]
        extra = rng.choice([[], [dict(RESET)], [dict(RESET), rep("K")], [dict(RESET), dict(RESET)], [dict(TIMEUP)]])
        ops += [dict(o, burst=0) for o in extra]
        if i < 6:
            hot = [i % 3]                       # each position of each order once
        else:
            hot = [j for j in range(len(ops)) if rng.random() < 0.5] or [rng.randrange(len(ops))]
        for j in hot:
            ops[j]["burst"] = rng.choice([120, 150, 150, 200, 330])
        if rng.random() < 0.3:                  # a deadline before everything is ready
            ops.insert(rng.randrange(len(order)), dict(TIMEUP, burst=rng.choice([0, 150])))
        scs.append({"kind": "burst", "setup": {"evt": True, "chan": rng.choice(["Unknown", "disabled"])}, "ops": ops})
    return scs


def burst_to_model(sc):
    tasks = [{k: v for k, v in o.items() if k != "burst"} for o in sc["ops"]] + [qry("const:1")]
    return {"kind": "sched", "setup": sc["setup"], "tasks": tasks, "sched": [t for t in range(len(tasks)) for _ in range(MAXP)]}


def http_to_model(sc):
    """the same run for the model: the listener's own listener_started first, then one task per op,
    each run to completion; a missing / unparsable header is the integer 0 (proxy_server.rs 612-631)"""
    tasks = [rep("L")]
    for o in sc["ops"]:
        if o["op"] == "httpquery":
            q = o["q"]
            if q == "none":
                q = "const:0"
            elif q.startswith("raw:"):
                try:
                    q = "const:%d" % int(q[4:])
                except ValueError:
                    q = "const:0"
            tasks.append(qry(q))
        else:
            tasks.append(o)
    sched = [t for t in range(len(tasks)) for _ in range(MAXP)]
    return {"kind": "sched", "setup": sc["setup"], "tasks": tasks, "sched": sched}


# ------------------------------------------------------------------------------------------------
# running the driver
# ------------------------------------------------------------------------------------------------
def run_driver(binary, scenarios, cdir, timeout=1800, prefix=None):
    lines = [json.dumps(s) for s in scenarios]
    cmd = (prefix or []) + [binary]
    p = subprocess.run(cmd, input="\n".join(lines) + "\n", capture_output=True, text=True, timeout=timeout,
                       env=dict(os.environ, C16_DIR=cdir))
    outs = [json.loads(l[3:]) for l in p.stdout.split("\n") if l.startswith("@@ ")]
    return p.returncode, outs, p.stderr


def chunked_driver(binary, scenarios, cdir, chunk=400):
    """several processes side by side (each scenario builds its own runtime; the keys dir is per process)"""
    from concurrent.futures import ThreadPoolExecutor
    parts = [scenarios[i:i + chunk] for i in range(0, len(scenarios), chunk)]

    exes = []
    for ix in range(len(parts)):          # private copies made BEFORE any child is forked (ETXTBSY otherwise)
        d = os.path.join(cdir, "p%d" % ix)
        os.makedirs(os.path.join(d, "bin"), exist_ok=True)
        b = os.path.join(d, "bin", "c16")
        if os.path.exists(b):
            os.remove(b)
        try:
            os.link(binary, b)
        except OSError:
            shutil.copy(binary, b)
        exes.append((d, b))

    def one(ix_part):
        ix, part = ix_part
        d, b = exes[ix]
        rc, outs, err = run_driver(b, part, d)
        if rc != 0 or len(outs) != len(part):
            raise RuntimeError("c16 driver failed rc=%s outputs=%d/%d: %s" % (rc, len(outs), len(part), err[-1500:]))
        return outs
    with ThreadPoolExecutor(max_workers=6) as ex:
        res = list(ex.map(one, enumerate(parts)))
    return [o for r in res for o in r]


# ------------------------------------------------------------------------------------------------
def run(ctx):
    translator_failure = None
    try:
        vplib.gen_consts(ctx)
        proofs_ok, detail = vplib.check_proofs(ctx)
    except vplib.Violation as v:
        # the constants the model needs are gone: no model run is possible, but the property itself
        # can still be evaluated on the code's behaviour (search for a failing input, DESIGN 1.4)
        translator_failure = v
        proofs_ok, detail = False, "constants translator failed: %s" % v
    ctx.log("proofs:", proofs_ok, detail[:200])
    bins = vplib.cargo_build(ctx, "harness", ["c16"])
    with_model = translator_failure is None
    strs, limit = {}, 1024
    cdir = os.path.join(ctx.scratch, "c16")
    os.makedirs(os.path.join(cdir, "bin"), exist_ok=True)
    binary = os.path.join(cdir, "bin", "c16")   # private copy: proxy-agent.json is written beside the exe
    shutil.copy(bins["c16"], binary)
    disagreements, failures = [], []
    known = vplib.known_findings("C16")
    known_ids = {k.get("id") for k in known}

    # ---------------- probe: which variant is this code? ----------------
    f10 = {"kind": "sched", "setup": {"evt": True, "chan": "disabled", "msgs": {"K": "kmsg"}},
           "tasks": [rep("K"), rep("L"), rep("R"), dict(RESET), qry("now")],
           "sched": complete([0, 0, 1, 1, 2, 3, 3, 3, 4, 2], 5)}
    f12 = {"kind": "http", "setup": {"evt": True, "chan": "Unknown"}, "ops": [{"op": "httpquery", "q": "none"}]}
    rc, outs, err = run_driver(binary, [f10, f12], cdir)
    if rc != 0 or len(outs) != 2 or "steps" not in outs[1]:
        raise RuntimeError("c16 driver failed on the probes: rc=%s %s %s" % (rc, outs, err[-1500:]))
    atomic = int(outs[0]["steps"][4]["tick"]) != 0            # tick already stamped by the UpdateState that completed ALL_READY
    guard = outs[1]["steps"][0]["res"].get("finished") is False
    # THE model is the repaired variant (the code as it is now); what the probes exhibit is only logged:
    # a regression to an older variant shows up below as property failures with the schedule / request
    # as replay (F10 / F12 / F11 are "fixed" entries and suppress nothing) and as model/code differences
    var = {"atomic": True, "guard": True, "lock": True}
    ctx.log("code exhibits: atomic tick = %s, zero-tick guard = %s; model: repaired_code" % (atomic, guard))
    ctx.coverage["variant_exhibited_by_probes"] = {"atomic": atomic, "guard": guard}
    ctx.coverage["model_variant"] = "repaired_code"

    # ---------------- sched leg ----------------
    cases, dist = gen_cases(ctx)
    t0 = time.time()
    impl = chunked_driver(binary, cases, cdir)
    ctx.log("driver: %.1fs" % (time.time() - t0))
    t0 = time.time()
    model = [None] * len(cases)
    if with_model:
        try:
            model = vplib.coq_eval(ctx, REQUIRES, [coq_observe(var, sc) for sc in cases], prelude=PRELUDE,
                                   shard=max(40, len(cases) // 15 + 1), timeout=1500)
        except RuntimeError as e:
            if proofs_ok:
                raise
            with_model = False          # the model no longer compiles; already reported through proofs_ok
            ctx.notes.append("model not evaluable: %s" % str(e)[-300:])
    ctx.log("model: %.1fs" % (time.time() - t0))
    nontrivial = set()
    n_stale = n_fin = n_nonempty = 0
    samples = []
    for sc, out, mo in zip(cases, impl, model):
        if "steps" not in out:
            disagreements.append({"case": sc, "impl": out, "model": "n/a"})
            continue
        ci = canon_impl(sc, out, var)
        fails, stale = property_failures(sc, out, var, strs, limit)
        cm = ci
        if with_model:
            cm, ghost = canon_model(sc, mo, var)
            if cm != ci:
                diff = [k for k in cm if cm[k] != ci[k]]
                disagreements.append({"case": sc, "differs_in": diff, "model": {k: cm[k] for k in diff}, "impl": {k: ci[k] for k in diff}})
            elif stale != ghost["stale"]:
                disagreements.append({"case": sc, "differs_in": ["stale-stamp class"], "model": ghost["stale"], "impl": stale})
        for f in fails:
            failures.append(dict(f, case=sc, impl={"results": out["results"], "steps": [(s["tid"], s["flags"], s["tick"]) for s in out["steps"]]}))
        n_stale += stale
        for r in ci["results"]:
            if isinstance(r, dict):
                n_fin += r["fin"]
                n_nonempty += bool(r["err"])
        if len({s[0] for s in ci["steps"]}) > 2:
            nontrivial.add(json.dumps([sc["tasks"], sc["sched"]], sort_keys=True))
        if len(samples) < 3 and stale:
            samples.append({"tasks": sc["tasks"], "sched": sc["sched"][:40], "impl_results": ci["results"], "model_results": cm["results"]})
    ctx.log("sched leg: %d cases, %d disagreements, %d property failures (before the known-finding filter)" % (len(cases), len(disagreements), len(failures)))

    # ---------------- http leg ----------------
    https = gen_http(ctx)
    hout = chunked_driver(binary, https, os.path.join(cdir, "http"), chunk=max(5, len(https) // 6 + 1))
    hmodels = [http_to_model(sc) for sc in https]
    hmodel = [None] * len(https)
    if with_model:
        hmodel = vplib.coq_eval(ctx, REQUIRES, [coq_observe(var, m) for m in hmodels], prelude=PRELUDE,
                                shard=max(10, len(https) // 12 + 1), timeout=1500, name="http")
    n_http_q = 0
    for sc, out, msc, mo in zip(https, hout, hmodels, hmodel):
        if "steps" not in out:
            disagreements.append({"case": sc, "impl": out, "model": "n/a"})
            continue
        cmh = canon_model(msc, mo, var)[0] if with_model else None
        msgs = {m: sc["setup"].get("msgs", {}).get(m, UNKNOWN_MSG) for m in "RKL"}
        last_outcome = None
        if out.get("fs", {}).get("tag") and sc["ops"] and len(out["steps"]) == len(sc["ops"]):
            lo = None
            for i, (o, s) in enumerate(zip(sc["ops"], out["steps"])):
                if o["op"] == "report" and s["flags"] == ALL:
                    lo = ("all-ready", i)
                elif o["op"] == "reset" or (o["op"] == "timeup" and s["flags"] != ALL):
                    lo = (o["op"], i)
            if lo and lo[0] == "all-ready":
                failures.append({"case": sc, "kind": "tag-stale", "impl": out["fs"],
                                 "why": "status.tag still holds the failure text %r although op %d (a readiness report) completed ALL_READY afterwards and nothing reset a flag since: the file names %s while /provision answers finished with an empty error text" % (
                                     out["fs"]["tag"], lo[1], sorted(named(out["fs"]["tag"])))})
        for i, (o, s) in enumerate(zip(sc["ops"], out["steps"])):
            mi = i + 1                               # model task index (task 0 = the listener's own report)
            mfl = cmh["steps"][(mi + 1) * MAXP - 1][0] if cmh else s["flags"]   # flags after that op completed
            if s["flags"] != mfl:
                disagreements.append({"case": sc, "op_index": i, "model_flags": mfl, "impl_flags": s["flags"]})
                break
            if o["op"] == "setmsg":
                msgs[o["m"]] = o["v"]
            if o["op"] == "report" and s["flags"] == ALL:
                last_outcome = ("all-ready", i)
            elif o["op"] == "reset" or (o["op"] == "timeup" and s["flags"] != ALL):
                last_outcome = (o["op"], i)
            if o["op"] != "httpquery":
                continue
            n_http_q += 1
            res = s["res"]
            if not o.get("metadata", True):
                if res.get("status") != 400:
                    failures.append({"case": sc, "why": "/provision without Metadata header answered %r instead of 400" % (res,), "kind": "http"})
                continue
            mr = cmh["results"][mi] if cmh else {"fin": res.get("finished"), "err": res.get("err")}
            got = (res.get("finished"), res.get("err"))
            if got != (mr["fin"], mr["err"]):
                disagreements.append({"case": sc, "op_index": i, "op": o, "model": (mr["fin"], mr["err"]), "impl": got,
                                      "state": {"flags": s["flags"], "tick": s["tick"], "q": s["q"], "chan": s["chan"]}})
            # the property on the code's answer: ops are sequential here, so the state is known exactly
            tick, flags, chan = int(s["tick"]), s["flags"], s["chan"]
            latched = chan not in ("disabled", "Unknown")
            q = 0
            if s["q"] is not None:
                q = int(s["q"])
            elif o["q"].startswith("raw:"):
                try:
                    q = int(o["q"][4:])
                except ValueError:
                    q = 0
            err = res.get("err") or ""
            if named(err) != missing(flags) or ((err == "") != (flags == ALL)):
                failures.append({"case": sc, "why": "/provision errorMessage %r names %s but the flags are %d (missing %s)" % (err, sorted(named(err)), flags, sorted(missing(flags))), "kind": "error-text"})
            if res.get("finished") is True and not latched and not (tick != 0 and tick >= q):
                # sequential run: the tick in the actor is the only possible witness of an instant >= q
                failures.append({"case": sc, "why": "/provision (tick header %s -> %d) answered finished=true with finished tick %d, not latched" % (o["q"], q, tick),
                                 "kind": "untruthful", "q": q, "stale": False, "impl": res})
            # (finished=false where the formula would say true is not a violation of the property, which
            #  only restricts finished=true; such a change shows up as a model/code difference above)
    ctx.log("http leg: %d scenarios, %d /provision requests" % (len(https), n_http_q))

    # ---------------- burst leg: reports / resets against a full actor mailbox ----------------
    bursts = gen_burst(ctx)
    bout = chunked_driver(binary, bursts, os.path.join(cdir, "burst"), chunk=max(4, len(bursts) // 6 + 1))
    bmodel = [None] * len(bursts)
    if with_model:
        bmodel = vplib.coq_eval(ctx, REQUIRES, [coq_observe(var, burst_to_model(sc)) for sc in bursts], prelude=PRELUDE,
                                shard=max(6, len(bursts) // 8 + 1), timeout=1500, name="burst")
    n_burst_ops = 0
    for sc, out, mo in zip(bursts, bout, bmodel):
        if "steps" not in out:
            disagreements.append({"case": sc, "impl": out, "model": "n/a"})
            continue
        cmb = canon_model(burst_to_model(sc), mo, var)[0] if with_model else None
        fl = out["init"]["flags"]
        for i, (o, s) in enumerate(zip(sc["ops"], out["steps"])):
            n_burst_ops += 1
            if not s["op_done"] or s["burst_left"]:
                failures.append({"case": sc, "kind": "burst", "impl": s,
                                 "why": "op %d (%s) or %d of its %d surrounding queries never completed although the actor was left to drain" % (i, o["op"], s["burst_left"], s["burst"])})
                break
            # no lost update: every report / reset whose future completed is reflected in the flags
            if o["op"] == "report":
                fl |= FLAG[o["flag"]]
            elif o["op"] == "reset":
                fl &= ~FLAG["K"]
            if s["flags"] != fl:
                failures.append({"case": sc, "kind": "lost-update", "impl": out["steps"],
                                 "why": "lost update: after op %d (%s%s, sent while %d status queries were queued at the provision actor) completed the flags are %d, the completed reports/resets give %d" % (
                                     i, o["op"], " " + o.get("flag", "") if o["op"] == "report" else "", s["burst"], s["flags"], fl)})
                break
            if cmb:
                mfl, mrank = cmb["steps"][(i + 1) * MAXP - 1]
                if (mfl, mrank != 0) != (s["flags"], int(s["tick"]) != 0):
                    disagreements.append({"case": sc, "op_index": i, "model": (mfl, mrank != 0), "impl": (s["flags"], int(s["tick"]) != 0)})
                    break
        else:
            fin = out["final"]
            if named(fin["err"]) != missing(fl) or ((fin["err"] == "") != (fl == ALL)):
                failures.append({"case": sc, "kind": "error-text", "impl": fin,
                                 "why": "after the burst scenario the error text %r names %s, the completed reports/resets leave %s missing" % (fin["err"], sorted(named(fin["err"])), sorted(missing(fl)))})
            if cmb and cmb["results"][-1]["err"] != fin["err"]:
                disagreements.append({"case": sc, "differs_in": ["final error text"], "model": cmb["results"][-1]["err"], "impl": fin["err"]})
    ctx.log("burst leg: %d scenarios, %d operations" % (len(bursts), n_burst_ops))

    # ---------------- strace leg: syscall order and kill points of write_provision_state ----------------
    strace_info = strace_leg(ctx, binary, cdir, strs, limit, var, disagreements, failures, with_model)

    # ---------------- threads leg (F11) ----------------
    serialized = True
    try:
        import gen_consts
        serialized = consts()[0].get("provision_status_tag_writers_serialized", 1) == 1
        for n in gen_consts.NOTES:
            if ("provision" in n or "status.tag" in n) and n not in ctx.notes:
                ctx.notes.append(n)
    except Exception:
        pass
    iters = 250 if ctx.quick else 1500
    if not serialized:
        iters = 1500          # the mutex is gone from the source: search harder for the failing race
    rc, outs, err = run_driver(binary, [{"kind": "threads", "iters": iters * 2, "writers": 1}, {"kind": "threads", "iters": iters, "writers": 2}], cdir, timeout=3000)
    f11 = {"ran": rc == 0 and len(outs) == 2}
    if f11["ran"]:
        f11.update({"one_writer": outs[0], "two_writers": outs[1]})
        if outs[0].get("anomalies", 0) > 0:
            failures.append({"case": {"kind": "threads", "writers": 1}, "kind": "tag", "impl": outs[0],
                             "why": "a reader saw status.tag with content that is not a complete status text while ONE writer was running (%s)" % outs[0].get("example")})
        if outs[1].get("anomalies", 0) > 0:
            failures.append({"case": {"kind": "threads", "writers": 2, "iters": iters}, "kind": "tag-overlap", "impl": outs[1],
                             "why": "with two concurrent write_provision_state (provision_timeup on two worker threads) a reader saw status.tag %s, which no writer wrote (%d of %d reads); replay: c16 driver scenario {\"kind\":\"threads\",\"iters\":%d,\"writers\":2}" % (outs[1].get("example"), outs[1]["anomalies"], outs[1]["reads"], iters)})
    ctx.coverage["f11_threads"] = f11

    # ---------------- coverage / verdict ----------------
    total = len(cases) + len(https) + len(bursts)
    ctx.coverage.update({
        "evaluations": total + strace_info.get("runs", 0),
        "distinct_nontrivial": len(nontrivial),
        "traces_validated_against_impl": total - len({json.dumps(d.get("case"), sort_keys=True) for d in disagreements}),
        "rule": "hand-polled schedules over the real futures: exhaustive interleavings of the first polls of {R-report, reset, query} (family A), "
                "{R,K reports, reset, query} (B), {R-report, reset, deadline, query} (C), {key_latched, reset, key_latched, query} (D), two queries (E, thorough), "
                "each followed by running everything to completion, plus random scenarios (3-4 reports, 0-2 resets, deadline, 1-2 queries with ticks now/0/-7/future/tick/tick+-1, "
                "channel and status-message changes); non-trivial = the flags took more than two distinct values during the run, distinct by (tasks, schedule); "
                "sequential op scripts against the real listener; burst scripts (each report / reset / deadline sent while 120-330 status queries are queued at the provision actor, mailbox capacity 100); strace runs of write_provision_state",
        "exhaustive": False,
        "samples": samples,
        "input_distribution": dict(dist, burst_scenarios=len(bursts), burst_operations=n_burst_ops, http_scenarios=len(https), http_requests=n_http_q,
                                   schedules_with_stale_stamp=n_stale, queries_answered_finished=n_fin,
                                   queries_with_nonempty_error=n_nonempty, strace=strace_info),
    })
    ctx.assumptions += [
        "the model is tied to the code by differential execution on the schedules above, not by translation",
        "schedules are explored at await-point granularity on a current_thread runtime (hand-polled futures); "
        "interleavings of the synchronous file-system calls of two writers exist only in the model and in the threads leg",
        "start_event_threads is kept on its early-return path (event threads marked initialized) because the tasks it spawns write below /var/log/azure-proxy-agent",
        "time is the real wall clock on the code side and a logical clock in the model; ticks are compared as 'stamped during step j' and by their order relative to query ticks",
        "crash = process death at a syscall boundary (SIGKILL before each syscall on status.tag / status.tag.tmp); power loss is not modelled",
        "the deadline handler is 'the deadline passed': the model lets it run at any time",
    ]

    counts = {"F10": 0, "F11": 0, "F12": 0}

    def known_filter(f):
        if f.get("kind") == "untruthful":
            if f.get("stale") and "F10" in known_ids:
                counts["F10"] += 1
                return ("F10 (class stale_stamp) a reporter's SetProvisionFinished(true) processed after a key-latch reset: "
                        "a query created after the reset is answered finished=true with the key latch not ready and no deadline passed")
            if f.get("q") is not None and f["q"] <= 0 and "F12" in known_ids:
                counts["F12"] += 1
                return ("F12 (class nonpositive_query_tick) a /provision query whose tick is missing, unparsable, zero or negative "
                        "is answered finished=true while the finished tick is still 0")
        if f.get("kind") == "tag-overlap" and "F11" in known_ids:
            counts["F11"] += 1
            return ("F11 (class overlapping_writers) two concurrent write_provision_state share status.tag.tmp: "
                    "a reader saw status.tag empty or mixed although no writer wrote that")
        return None

    if translator_failure is not None and not [f for f in failures if not known_filter(f)]:
        raise translator_failure
    verdict(ctx, proofs_ok, detail, disagreements, failures, known_filter,
            corr_name="Provision.observe (model, variant %s) vs hand-polled provision.rs futures / the /provision handler / strace of write_provision_state" % var)
    ctx.coverage["known_finding_instances"] = counts


# ------------------------------------------------------------------------------------------------
def strace_leg(ctx, binary, cdir, strs, limit, var, disagreements, failures, with_model=True):
    """once over an existing status.tag and once for the FIRST status.tag of a directory (no old file:
    every crash / fault must leave it absent or complete)"""
    if shutil.which("strace") is None:
        return {"runs": 0, "skipped": "strace not installed"}
    info = _strace_round(ctx, binary, cdir, var, disagreements, failures, with_model, "OLD CONTENT\r\n")
    first = _strace_round(ctx, binary, cdir, var, disagreements, failures, with_model, None)
    info["runs"] += first["runs"]
    info["first_status_tag"] = first
    return info


MUTATING = ("open", "openat", "openat2", "creat", "write", "pwrite64", "writev", "close", "rename", "renameat", "renameat2",
            "unlink", "unlinkat", "truncate", "ftruncate", "link", "linkat", "symlink", "symlinkat")


def _strace_round(ctx, binary, cdir, var, disagreements, failures, with_model, old):
    info = {"runs": 0}
    kd = os.path.join(cdir, "kill")
    msg = "new <message> & more"
    new = None    # learned from the complete run below
    tag, tmp = os.path.join(kd, "status.tag"), os.path.join(kd, "status.tag.tmp")
    sc = {"kind": "write", "dir": kd, "msg": msg}

    def fresh():
        shutil.rmtree(kd, ignore_errors=True)
        os.makedirs(kd)
        if old is not None:
            with open(tag, "w", newline="") as f:
                f.write(old)

    def rd(p):
        try:
            with open(p, newline="") as f:
                return f.read()
        except FileNotFoundError:
            return None
    # (a) syscall order on the two names
    fresh()
    log = os.path.join(cdir, "strace.log")
    rc, outs, err = run_driver(binary, [sc], cdir, prefix=["strace", "-f", "-o", log, "-s", "4096", "-P", tag, "-P", tmp])
    info["runs"] += 1
    calls = []
    for l in open(log, errors="replace"):
        m = re.match(r"\d+\s+(\w+)\((.*)", l)
        # only what changes the files matters (stat / access / fsync around it are harmless)
        if m and m.group(1) in MUTATING:
            calls.append((m.group(1), m.group(2)))
    names = [c[0] for c in calls]
    info["syscalls"] = names
    new = rd(tag)
    if new is None or new == old or named(new) != {"R", "K", "L"} or xml_escape(msg) not in new:
        failures.append({"case": sc, "kind": "tag", "impl": new,
                         "why": "after provision_timeup with no subsystem ready status.tag holds %r (expected the escaped text naming all three subsystems)" % (new,)})
        return info
    shape_ok = (len(calls) == 4 and names[0] in ("openat", "open") and "status.tag.tmp" in calls[0][1] and "O_TRUNC" in calls[0][1]
                and names[1] == "write" and names[2] == "close" and names[3] in ("rename", "renameat", "renameat2")
                and "status.tag.tmp" in calls[3][1])
    if rc != 0 or not shape_ok or rd(tmp) is not None:
        # is the property itself broken?  status.tag written other than by rename of the temp file
        direct = [c for c in calls if c[0] in ("openat", "open", "write", "truncate", "ftruncate") and "status.tag.tmp" not in c[1] and "status.tag" in c[1]]
        if direct or rd(tag) not in (old, new):
            failures.append({"case": sc, "kind": "tag", "why": "status.tag is written directly, not by rename of a completely written status.tag.tmp: %s" % (direct[:3] or rd(tag)),
                             "impl": names})
        else:
            disagreements.append({"case": sc, "differs_in": ["syscall sequence of write_provision_state"],
                                  "model": ["openat(tmp,O_TRUNC)", "write", "close", "rename(tmp,tag)"], "impl": names, "tag": rd(tag)})
    # (b) SIGKILL on entry of each of those syscalls: the model's crash prefixes
    if not with_model:
        pref = [(old, None), (old, ""), (old, new), (new, None)]
    n = len(new.encode())
    pref = pref if not with_model else vplib.coq_eval(ctx, "From Coq Require Import List NArith ZArith.\nImport ListNotations.\nFrom GPA Require Import Provision.",
                          ["map (fun n => let c := prun %s (start %s (init_world true (set_msg default_msgs MKeyKeeper %s) %s (TAG0 %s)) [OpTimeup]) (repeat 0%%nat n) in (tag_content (shared c), tmp_content (shared c))) [10%%nat; 11%%nat; %d%%nat; %d%%nat]"
                           % (coq_variant(var), coq_variant(var), cb(msg), cb("Unknown"), cb(old) if old is not None else "[]", 11 + n, 12 + n)], name="crash", prelude="Definition TAG0 (b : bytes) : option bytes := %s." % ("Some b" if old is not None else "None"))[0]
    if with_model:
        pref = [(b2s(a), b2s(b)) for a, b in pref]
    expect = {"openat": pref[0], "write": pref[1], "close": pref[2], "rename": pref[2]}
    info["model_crash_prefixes"] = pref
    if pref[3] != (new, None):
        disagreements.append({"case": sc, "differs_in": ["final content of status.tag"], "model": pref[3], "impl": (new, None)})
    seen = {}
    for sysc in ("openat", "write", "close", "rename"):
        fresh()
        rc, outs, err = run_driver(binary, [sc], cdir, prefix=["strace", "-f", "-o", "/dev/null", "-P", tag, "-P", tmp,
                                                               "-e", "trace=%s" % sysc, "-e", "inject=%s:signal=SIGKILL:when=1" % sysc])
        info["runs"] += 1
        got = (rd(tag), rd(tmp))
        seen[sysc] = {"rc": rc, "tag": got[0], "tmp": got[1]}
        if got[0] not in (old, new):
            failures.append({"case": dict(sc, kill_before=sysc), "kind": "tag", "impl": got,
                             "why": "killed before %s (%s): status.tag holds %r, neither %s nor the new content" % (
                                 sysc, "over an existing status.tag" if old is not None else "first status.tag of the directory", got[0],
                                 "the old" if old is not None else "absent")})
        elif rc == 0 and len(outs) == 1:
            # the syscall never happened (e.g. rename replaced by something else): shape already reported above
            pass
        elif got != expect[sysc]:
            disagreements.append({"case": dict(sc, kill_before=sysc), "differs_in": ["crash prefix"], "model": expect[sysc], "impl": got})
    info["kill_points"] = seen
    # (c) environment faults: the temp write fails part-way (file size limit = what a full volume / quota looks
    #     like to write(2)), or the directory is read-only for the process: status.tag must still hold a complete
    #     old or new text (a failed temp write must never be renamed into place)
    faults = {}
    for name, extra, prep in ([("fsize=%d" % n, {"fsize": n}, None) for n in (0, 1, 20, 40, max(1, len(new.encode()) - 1))] +
                              [("read-only directory with a stale status.tag.tmp", {"drop_uid": 65534}, "stale")]):
        fresh()
        if prep == "stale":
            with open(tmp, "w", newline="") as f:
                f.write("STALE GARBAGE")
            os.chmod(kd, 0o755)
        rc, outs, err = run_driver(binary, [dict(sc, **extra)], cdir)
        info["runs"] += 1
        got = (rd(tag), rd(tmp))
        faults[name] = {"rc": rc, "tag": got[0], "tmp_len": None if got[1] is None else len(got[1])}
        if got[0] not in (old, new):
            failures.append({"case": dict(sc, **extra), "kind": "tag", "impl": got,
                             "why": "write_provision_state under the fault '%s' (%s): status.tag holds %r, neither %s nor the complete new text (a failed / partial write was published)" % (
                                 name, "over an existing status.tag" if old is not None else "first status.tag of the directory", got[0],
                                 "the complete old text" if old is not None else "absent")})
    info["faults"] = faults
    return info
