"""C08 -- A key is never latched at the host unless the guest can recover it.
Models: coq/Model/{KeyKeeper,CrashFs,KeyStore}.v; theorems: coq/Props/C08.v; implementation: the
real KeyKeeper (harness/src/bin/c09.rs) as a child process under
    strace -f -e trace=<syscall> -e inject=<syscall>:signal=SIGKILL:when=N
against tools/mockhost.py, for the file-system and socket calls on the latch path; after each kill
the key directory and the host's state / request log are compared with the model's crash points,
and a fresh process is started on the surviving directory.

Trusted syscall -> model event mapping (DESIGN 5, C08):
    openat(<guid>.tmp, O_CREAT|O_TRUNC)   = FCreate tmp
    write(fd of <guid>.tmp, n bytes)      = n x FWrite tmp byte   (a kill at the N-th write leaves a chunk-boundary prefix)
    rename(<guid>.tmp, <guid>.key)        = FRename tmp final
    writev(socket, request)               = the request reaches the host (LStatus / LAcquire / LAttest), observed as the
                                            mock's log entry and its effect on the mock's issued / latched state
    openat/statx/read of <guid>.key, socket, connect, recvfrom, shutdown, in-process steps = no effect on (disk, host)
strace delivers the signal on ENTERING the N-th call, so exactly N-1 calls of that class completed."""
import json
import os
import re
import shutil
import subprocess
import threading
import time

import kkdrv
import mockhost
import vplib
from checks.common import verdict
from kkdrv import b2s, cb, copt, mk_key
from vplib import clist

# guids as a host may write them: lower case, upper / mixed case, braces, not a GUID at all
# (any non-empty file name without '.' and '/' is in the model's domain)
G = ["00000001-AAAA-4bbb-8CCC-000000000001", "00000002-aaaa-4bbb-8ccc-000000000002", "KEY-0003",
     "{00000004-aaaa-4bbb-8ccc-000000000004}", "00000005-AAAA-4BBB-8CCC-00000000000F"]
FS_CLASSES = ["openat", "write", "rename", "read", "statx"]
NET_CLASSES = ["socket", "connect", "writev", "recvfrom", "shutdown"]


def digest(c):
    a = 0
    for b in c:
        a = (a * 257 + b + 1) % 4294967291
    return (len(c), a)


# ----------------------------------------------------------------------------------------
# scenarios
# ----------------------------------------------------------------------------------------
def doc_v1(guid):
    return {"version": "1.0", "state": "Wireserver", "guid": guid}


V2_ITEM = {"defaultAccess": "deny", "mode": "enforce", "id": "sig1",
           "rules": {"privileges": [{"name": "p", "path": "/machine"}], "roles": [{"name": "r", "privileges": ["p"]}],
                     "identities": [{"name": "i", "userName": "root"}], "roleAssignments": [{"role": "r", "identities": ["i"]}]}}


def doc_v2(guid):
    return {"version": "2.0", "enabled": True, "guid": guid, "rules": {"wireserver": V2_ITEM, "imds": None, "hostga": None}}


def P(status_ok=True, acq=0, att=0, rotate=False, guid="latch", store_fail=None, local_fail=False, reissue=False, disabled=False):
    return {"status_ok": status_ok, "acq": acq, "att": att, "rotate": rotate, "guid": guid, "store_fail": store_fail,
            "local_fail": local_fail, "reissue": reissue, "disabled": disabled}


def doc_for(scn, cfg, guid):
    """the status document of one poll: the scenario's flavour, reported disabled when the poll says so
    (the host keeps naming its latched guid while the customer has the channel turned off)"""
    d = (doc_v1 if scn["doc"] == "v1" else doc_v2)(guid)
    if cfg.get("disabled"):
        if d["version"] == "2.0":
            d["enabled"] = False
        else:
            d["state"] = "Disabled"
    return d


SHIM = [None]       # path of the built tools/c08_openfail.c (LD_PRELOAD), set by run()


def scn_env(scn):
    """transient local read fault: the first read-only open of <guid>.key fails (EMFILE / EIO), the file is intact"""
    ff = scn.get("fail_open")
    if not ff:
        return None
    return {"LD_PRELOAD": SHIM[0], "C08_FAIL_OPEN_SUFFIX": "/" + ff["guid"] + ".key", "C08_FAIL_OPEN_COUNT": "1",
            "C08_FAIL_OPEN_ERRNO": str(ff["errno"])}


def scenarios():
    k = [mk_key(G[0], inc=1), mk_key(G[1]), mk_key(G[2], inc=2), mk_key(G[3]), mk_key(G[4])]
    full0 = kkdrv.key_file_bytes(k[0])
    s = []
    s.append({"name": "fresh-latch", "init": {}, "issued": 0, "latched": None, "keys": k, "doc": "v1", "polls": [P()]})
    s.append({"name": "restart-with-key", "init": {G[0] + ".key": full0}, "issued": 1, "latched": G[0], "keys": k, "doc": "v1", "polls": [P()]})
    s.append({"name": "key-rotation", "init": {G[0] + ".key": full0}, "issued": 1, "latched": G[0], "keys": k, "doc": "v1",
              "polls": [P(), P(rotate=True)]})
    s.append({"name": "key-rotation-named-guid", "init": {G[0] + ".key": full0}, "issued": 1, "latched": G[0], "keys": k, "doc": "v1",
              "polls": [P(), P(guid=G[4])]})
    s.append({"name": "unreadable-local-key", "init": {G[0] + ".key": full0[:97]}, "issued": 1, "latched": G[0], "keys": k, "doc": "v1", "polls": [P()]})
    s.append({"name": "acquire-answer-lost", "init": {}, "issued": 0, "latched": None, "keys": k, "doc": "v1", "polls": [P(acq=1), P()]})
    s.append({"name": "attest-answer-lost", "init": {}, "issued": 0, "latched": None, "keys": k, "doc": "v1", "polls": [P(att=1), P()]})
    s.append({"name": "attest-refused", "init": {}, "issued": 0, "latched": None, "keys": k, "doc": "v1", "polls": [P(att=2), P()]})
    s.append({"name": "status-error-first", "init": {}, "issued": 0, "latched": None, "keys": k, "doc": "v1", "polls": [P(status_ok=False), P()]})
    s.append({"name": "fresh-latch-v2-rules", "init": {}, "issued": 0, "latched": None, "keys": k, "doc": "v2", "polls": [P()]})
    s.append({"name": "foreign-guid-named", "init": {G[0] + ".key": full0}, "issued": 1, "latched": G[0], "keys": k, "doc": "v1",
              "polls": [P(guid=G[4])]})
    s.append({"name": "rename-fails-then-retry", "init": {}, "issued": 0, "latched": None, "keys": k, "doc": "v1",
              "polls": [P(store_fail="rename"), P()], "strace_extra": ["-e", "inject=rename:error=EIO:when=1"], "extra_trace": "rename", "skip_classes": ["rename"]})
    # key directories that accumulated older (valid, host-issued) key files whose guids sort below and above the latched one
    old = [mk_key(g, inc=i) for i, g in enumerate(["00000000-0000-4000-8000-00000000000a", "00000000-ffff-4000-8000-00000000000b",
                                                   "1a000000-aaaa-4bbb-8ccc-000000000001", "5b000000-aaaa-4bbb-8ccc-000000000002",
                                                   "9c000000-aaaa-4bbb-8ccc-000000000003", "A0000000-AAAA-4BBB-8CCC-000000000004",
                                                   "c0000000-aaaa-4bbb-8ccc-000000000005", "e0000000-aaaa-4bbb-8ccc-000000000006",
                                                   "f0000000-aaaa-4bbb-8ccc-000000000007"])]
    old_files = {kk["guid"] + ".key": kkdrv.key_file_bytes(kk) for kk in old}
    s.append({"name": "restart-with-key-among-9-older-keys", "init": dict(old_files, **{G[0] + ".key": full0}), "issued": len(old) + 1,
              "latched": G[0], "keys": old + k, "doc": "v1", "polls": [P()]})
    s.append({"name": "fresh-latch-among-6-older-keys", "init": {kk["guid"] + ".key": kkdrv.key_file_bytes(kk) for kk in old[3:]},
              "issued": len(old[3:]), "latched": None, "keys": old[3:] + k, "doc": "v1", "polls": [P()]})
    # the customer turns the secure channel off and on again between polls; the host keeps its latch and keeps naming it
    s.append({"name": "latch-disable-enable", "init": {}, "issued": 0, "latched": None, "keys": k, "doc": "v1",
              "polls": [P(), P(disabled=True), P()]})
    s.append({"name": "start-while-disabled-then-enable", "init": {G[0] + ".key": full0}, "issued": 1, "latched": G[0], "keys": k, "doc": "v1",
              "polls": [P(disabled=True), P()]})
    s.append({"name": "latch-disable-enable-v2", "init": {}, "issued": 0, "latched": None, "keys": k, "doc": "v2",
              "polls": [P(), P(disabled=True), P(disabled=True), P()]})
    # a host that hands out its last, not yet attested, key again (as the repository's server_mock does)
    s.append({"name": "fresh-latch-reissuing-host", "init": {}, "issued": 0, "latched": None, "keys": k, "doc": "v1",
              "polls": [P(reissue=True)], "reissue": True})
    s.append({"name": "acquire-answer-lost-reissuing-host", "init": {}, "issued": 0, "latched": None, "keys": k, "doc": "v1",
              "polls": [P(acq=1, reissue=True), P(reissue=True)], "reissue": True})
    # transient failure of the look-up of an intact, latched key file (EMFILE / EIO on the open), then a healthy restart
    s.append({"name": "transient-read-error-host-issues-nothing", "init": {G[0] + ".key": full0}, "issued": 1, "latched": G[0], "keys": k,
              "doc": "v1", "polls": [P(local_fail=True, acq=2)], "fail_open": {"guid": G[0], "errno": 24}})
    s.append({"name": "transient-read-error-then-relatch", "init": {G[0] + ".key": full0}, "issued": 1, "latched": G[0], "keys": k,
              "doc": "v1", "polls": [P(local_fail=True)], "fail_open": {"guid": G[0], "errno": 5}})
    for x in s:
        x["guids"] = sorted({kk["guid"] for kk in x["keys"][:len(x["polls"]) + x["issued"] + 2]})
        x["paths"] = [g + ext for g in x["guids"] for ext in (".key", ".tmp")]
    return s


class HonestHost:
    """the host of Model/KeyStore.v in Python: issues keys on acquire, latches on attest, reports its latch"""

    def __init__(self, scn, key_dir):
        self.keys = scn["keys"]
        self.issued = scn["issued"]          # number of acquire answers that handed out a key (re-issues count)
        self.last_ix = scn["issued"] - 1     # position in keys of the key handed out last
        self.latched = scn["latched"]
        self.init_latched = scn["latched"]
        self.key_dir = key_dir
        self.scn = scn
        self.attest_checks = []

    def issued_keys(self):
        return self.keys[:self.last_ix + 1]

    def step(self, cfg):
        def status():
            if cfg["rotate"]:
                self.latched = None
                cfg["rotate"] = False
            if not cfg["status_ok"]:
                return {"code": 500, "body": "boom"}
            g = self.latched if cfg["guid"] == "latch" else cfg["guid"]
            return {"code": 200, "body": kkdrv.doc_json(doc_for(self.scn, cfg, g))}

        def acquire():
            if cfg["acq"] == 2:
                return {"code": 500, "body": "no"}
            if cfg.get("reissue") and self.last_ix >= 0 and self.keys[self.last_ix]["guid"] != self.latched:
                ix = self.last_ix                # the same, not yet attested, key again
            else:
                ix = self.last_ix + 1
            if ix >= len(self.keys):
                return {"code": 500, "body": "no"}
            k = self.keys[ix]
            self.last_ix = ix
            self.issued += 1
            return {"code": 200, "body": k} if cfg["acq"] == 0 else {"code": 500, "body": "lost"}

        def attest(guid):
            # the property's ordering clause, observed at the moment the attestation arrives
            # (the agent is blocked waiting for the answer, so the directory is stable)
            try:
                content = open(os.path.join(self.key_dir, guid + ".key"), "rb").read()
            except OSError:
                content = None
            want = [kkdrv.key_file_bytes(kk) for kk in self.issued_keys() if kk["guid"] == guid]
            self.attest_checks.append((guid, content is not None and content in want))
            # "a key reported latched by the host and stored locally is never replaced while its file could be intact":
            # a second latch is legitimate only after the host dropped / renamed its latch or the old file was damaged from outside
            old_g = self.latched
            init_c = self.scn["init"].get(old_g + ".key") if old_g is not None else None
            damaged = init_c is not None and whole_key(init_c) is None
            if old_g is not None and guid != old_g and cfg["guid"] == "latch" and not cfg.get("local_fail") and not damaged:
                self.attest_checks.append(("replaced (%s by %s)" % (old_g, guid), None))
            if cfg["att"] == 2:
                return {"code": 403, "body": ""}
            self.latched = guid
            return {"code": 200, "body": ""} if cfg["att"] == 0 else {"code": 500, "body": "lost"}

        return {"status": status, "acquire": acquire, "attest": attest}


def observe(scn, key_dir, host, m):
    files = {}
    for n in sorted(os.listdir(key_dir)):
        try:
            files[n] = open(os.path.join(key_dir, n), "rb").read()
        except OSError:
            files[n] = None
    reqs = []
    for (_, kind, det) in m.snapshot_log():
        if kind == "status":
            reqs.append([0, ""])
        elif kind == "acquire":
            reqs.append([3, ""])
        elif kind == "attest":
            reqs.append([6, det["guid"]])
    return {"files": files, "reqs": reqs, "latched": host.latched, "issued": host.issued, "last_ix": host.last_ix,
            "digest": [None if files.get(p) is None else list(digest(files[p])) for p in scn["paths"]],
            "unexpected_files": sorted(set(files) - set(scn["paths"]))}


def setup_dirs(scn, root):
    shutil.rmtree(root, ignore_errors=True)
    key_dir, log_dir = os.path.join(root, "keys"), os.path.join(root, "logs")
    os.makedirs(key_dir)
    os.makedirs(log_dir)
    for n, c in scn["init"].items():
        with open(os.path.join(key_dir, n), "wb") as f:
            f.write(c)
    return key_dir, log_dir


def strace_args(scn, key_dir, cls, n, outfile="/dev/null"):
    a = ["strace", "-f", "-o", outfile]
    if cls is None:
        return a
    a += ["-e", "trace=" + cls + ("," + scn["extra_trace"] if scn.get("extra_trace") else "")]
    if n is not None:
        a += ["-e", "inject=%s:signal=SIGKILL:when=%d" % (cls, n)]
    if cls.split(",")[0] in FS_CLASSES:
        for p in scn["paths"]:
            a += ["-P", os.path.join(key_dir, p)]
    return a + scn.get("strace_extra", [])


def first_process(scn, binary, root, cls, n, count_file=None):
    """run the scenario's polls in a child under strace; returns (killed?, observation, final dump or None, host, key_dir, log_dir)"""
    key_dir, log_dir = setup_dirs(scn, root)
    host = HonestHost(scn, key_dir)
    m = mockhost.MockHost()
    for cfg in scn["polls"]:
        m.release(host.step(dict(cfg)))
    k = len(scn["polls"])
    drv = kkdrv.Driver(binary, wrapper=strace_args(scn, key_dir, cls, n, count_file or "/dev/null"), env=scn_env(scn))
    killed, dump = False, None
    try:
        drv.send({"cmd": "start", "base_url": m.base_url, "key_dir": key_dir, "log_dir": log_dir, "interval_ms": 10})
        t0 = time.time()
        while True:
            if not drv.alive():
                killed = True
                break
            if m.wait_status(k + 1, timeout=0.02):
                break
            if time.time() - t0 > 60:
                raise RuntimeError("scenario %s: neither finished nor died within 60 s (class %s, N %s)" % (scn["name"], cls, n))
        if not killed:
            try:
                drv.recv(10)                     # answer to start
                dump = drv.cmd({"cmd": "dump"}, timeout=20)
            except kkdrv.DriverDied:
                killed = True
    finally:
        drv.close()
    m.quiesce()
    obs = observe(scn, key_dir, host, m)
    m.close()
    return killed, obs, dump, host, key_dir, log_dir


def restart_process(scn, rdrv, host, key_dir, log_dir, extra_polls=3):
    """a fresh agent on the surviving directory, the host continuing from its state (clean answers; a
    re-issuing host when the scenario says so).  The first poll is compared with the model; if the agent
    has not reached "key in memory = the host's latch" by then it is given `extra_polls` more healthy polls
    (liveness after a crash: "on restart it can still authenticate")."""
    m = mockhost.MockHost()
    cfg = P(reissue=bool(scn.get("reissue")))
    m.release(host.step(dict(cfg)))
    try:
        rdrv.cmd({"cmd": "start", "base_url": m.base_url, "key_dir": key_dir, "log_dir": log_dir, "interval_ms": 10})
        if not m.wait_status(2, timeout=40):
            return {"err": "the restarted agent did not complete a poll within 40 s"}
        dump = rdrv.cmd({"cmd": "dump"})
        obs = observe(scn, key_dir, host, m)
        res = {"reqs": obs["reqs"], "key": None if dump["key_guid"] is None else [dump["key_guid"], dump["key_value"], dump["key_incarnation"]],
               "state": dump["state"], "digest": obs["digest"], "latched": host.latched, "issued": host.issued, "files": obs["files"],
               "panics": dump["panics"]}
        polls = 1
        d = dump
        while not (d["key_guid"] is not None and d["key_guid"] == host.latched) and polls <= extra_polls:
            m.release(host.step(dict(cfg)))
            polls += 1
            if not m.wait_status(polls + 1, timeout=40):
                break
            d = rdrv.cmd({"cmd": "dump"})
        res["authenticates"] = d["key_guid"] is not None and d["key_guid"] == host.latched
        res["polls_given"] = polls
        res["requests_total"] = [r[0] for r in observe(scn, key_dir, host, m)["reqs"]]
        rdrv.cmd({"cmd": "stop"})
        return res
    finally:
        m.close()


def count_calls(scn, binary, root, classes):
    """how many calls of each class the un-killed run makes (with the same strace filters as the kill runs)"""
    cf = os.path.join(root, "count.strace")
    killed, obs, dump, host, kd, ld = first_process(scn, binary, os.path.join(root, "count"), ",".join(classes), None, count_file=cf)
    counts = {c: 0 for c in classes}
    for line in open(cf, errors="replace"):
        mm = re.match(r"^\d+\s+(\w+)\(", line)
        if mm and mm.group(1) in counts:
            counts[mm.group(1)] += 1
    return counts, obs, dump


def order_run(scn, binary, root):
    """one un-killed run under `strace -y`: the order of requests and key-file operations (main thread)"""
    of = os.path.join(root, "order.strace")
    key_dir, log_dir = setup_dirs(scn, os.path.join(root, "order"))
    host = HonestHost(scn, key_dir)
    m = mockhost.MockHost()
    for cfg in scn["polls"]:
        m.release(host.step(dict(cfg)))
    k = len(scn["polls"])
    wrapper = ["strace", "-f", "-y", "-s", "160", "-o", of, "-e", "trace=openat,write,read,rename,statx,writev"] + scn.get("strace_extra", [])
    drv = kkdrv.Driver(binary, wrapper=wrapper, env=scn_env(scn))
    try:
        drv.cmd({"cmd": "start", "base_url": m.base_url, "key_dir": key_dir, "log_dir": log_dir, "interval_ms": 10})
        if not m.wait_status(k + 1, timeout=60):
            raise RuntimeError("order run of %s did not finish" % scn["name"])
    finally:
        drv.close()
        m.close()
    # merge <unfinished ...> / <... resumed> pairs per thread
    pending, lines = {}, []
    for raw in open(of, errors="replace"):
        mm = re.match(r"^(\d+)\s+(.*)$", raw.rstrip("\n"))
        if not mm:
            continue
        tid, rest = mm.group(1), mm.group(2)
        if rest.endswith("<unfinished ...>"):
            pending[tid] = rest[:-len("<unfinished ...>")]
            continue
        r2 = re.match(r"^<\.\.\. \w+ resumed>(.*)$", rest)
        if r2 and tid in pending:
            rest = pending.pop(tid) + r2.group(1)
        lines.append(rest)
    ev = []
    nstatus = 0
    kd = re.escape(key_dir + "/")
    for l in lines:
        mm = re.match(r'^writev\(\d+<[^>]*>, \[\{iov_base="(GET|POST) (/secure-channel/[^ ]*) HTTP', l)
        if mm:
            pth = mm.group(2)
            if pth == "/secure-channel/status":
                nstatus += 1
                if nstatus > k:
                    break           # everything after the last poll (the check's own dump reads the directory)
                ev.append([0, ""])
            elif pth == "/secure-channel/key":
                ev.append([3, ""])
            else:
                ev.append([6, pth[len("/secure-channel/key/"):-len("/key-attestation")]])
            continue
        mm = re.match(r'^openat\(AT_FDCWD[^,]*, "%s([^"/]+)", ([A-Z_|]+)[^)]*\) = (-?\d+)' % kd, l)
        if mm and int(mm.group(3)) >= 0:
            ev.append([10 if "O_CREAT" in mm.group(2) else 30, mm.group(1)])
            continue
        mm = re.match(r'^statx\(AT_FDCWD[^,]*, "%s([^"/]+\.key)",' % kd, l)
        if mm:
            ev.append([20, mm.group(1)])
            continue
        mm = re.match(r'^write\(\d+<%s([^>/]+)>, .* = (\d+)$' % kd, l)
        if mm:
            if ev and ev[-1][0] == 11 and ev[-1][1] == mm.group(1):
                ev[-1][2] += int(mm.group(2))
            else:
                ev.append([11, mm.group(1), int(mm.group(2))])
            continue
        mm = re.match(r'^read\(\d+<%s([^>/]+)>, .* = (\d+)$' % kd, l)
        if mm and int(mm.group(2)) > 0:
            if ev and ev[-1][0] == 31 and ev[-1][1] == mm.group(1):
                ev[-1][2] += int(mm.group(2))
            else:
                ev.append([31, mm.group(1), int(mm.group(2))])
            continue
        mm = re.match(r'^rename\("%s([^"/]+)", "%s([^"/]+)"\) = (-?\d+)' % (kd, kd), l)
        if mm and int(mm.group(3)) == 0:
            ev.append([12, mm.group(2)])
    return ev


def slow_store_run(scn, binary, root):
    """un-killed run with every write to a temp key file delayed by 3 ms (strace delay injection): the
    sequential code is only slower; code that lets the attestation overtake the store is exposed to the
    check made when the attestation arrives at the host"""
    key_dir, log_dir = setup_dirs(scn, os.path.join(root, "slow"))
    host = HonestHost(scn, key_dir)
    m = mockhost.MockHost()
    for cfg in scn["polls"]:
        m.release(host.step(dict(cfg)))
    k = len(scn["polls"])
    wrapper = ["strace", "-f", "-o", "/dev/null", "-e", "trace=write", "-e", "inject=write:delay_exit=3000"]
    for pth in scn["paths"]:
        if pth.endswith(".tmp"):
            wrapper += ["-P", os.path.join(key_dir, pth)]
    drv = kkdrv.Driver(binary, wrapper=wrapper + scn.get("strace_extra", []), env=scn_env(scn))
    dump = None
    try:
        drv.cmd({"cmd": "start", "base_url": m.base_url, "key_dir": key_dir, "log_dir": log_dir, "interval_ms": 10})
        if not m.wait_status(k + 1, timeout=90):
            raise RuntimeError("slow-store run of %s did not finish" % scn["name"])
        dump = drv.cmd({"cmd": "dump"}, timeout=30)
    finally:
        drv.close()
    m.quiesce()
    obs = observe(scn, key_dir, host, m)
    m.close()
    return obs, dump, list(host.attest_checks)


def canon_order(ev):
    """what the order comparison looks at: requests, create / bytes written / rename of key files, and
    "the key file <g>.key is looked up" -- any run of exists / open / read calls on the same final file is
    ONE look-up, however the code spells it (exists()+read_to_string, File::open alone, a second metadata call)"""
    out = []
    for e in ev:
        e = [20, e[1]] if e[0] in (20, 30, 31) else list(e)
        if e[0] == 20 and e[1].endswith(".key") is False:
            continue
        if out and e[0] == 20 and out[-1] == e:
            continue
        out.append(e)
    return out


def prop_order(ev):
    """"the agent never attests a key it has not first stored and read back identically" on the observed call order"""
    for i, e in enumerate(ev):
        if e[0] != 6:
            continue
        name = e[1] + ".key"
        # the store is complete at the last rename onto the final name, or at the last write to it
        done = [j for j in range(i) if (ev[j][0] == 12 and ev[j][1] == name) or (ev[j][0] == 11 and ev[j][1] == name)]
        if not done:
            return "the attestation for %s was sent before %s had been stored" % (e[1], name)
        j = done[-1]
        if ev[j][0] == 12:
            written = sum(x[2] for x in ev[:j] if x[0] == 11 and x[1] == e[1] + ".tmp")
        else:
            written = sum(x[2] for x in ev[:j + 1] if x[0] == 11 and x[1] == name)
        opened = [x for x in ev[j + 1:i] if x[0] == 30 and x[1] == name]
        readn = sum(x[2] for x in ev[j + 1:i] if x[0] == 31 and x[1] == name)
        if not opened or readn == 0:
            return "the attestation for %s was sent without reading %s back after storing it" % (e[1], name)
        if written and readn < written:
            return "the attestation for %s was sent after reading back only %d of %d stored bytes" % (e[1], readn, written)
    return None


# ----------------------------------------------------------------------------------------
# the property itself on the implementation's observed behaviour (from the property text)
# ----------------------------------------------------------------------------------------
def whole_key(content):
    try:
        j = json.loads(content.decode("utf-8"))
        return j if isinstance(j, dict) and all(isinstance(j.get(f), str) for f in ("authorizationScheme", "guid", "issued", "key")) else None
    except Exception:
        return None


def prop_check(scn, rec):
    o = rec["obs"]
    issued = scn["keys"][:o["last_ix"] + 1]
    init_bad = {n: c for n, c in scn["init"].items() if whole_key(c) is None}
    # "a crash never leaves a truncated or corrupt file under a key's final name"
    for n, c in o["files"].items():
        if n.endswith(".key") and not (n in init_bad and init_bad[n] == c):
            if c is None or whole_key(c) is None:
                return "after the kill the final name %s holds a truncated/corrupt file (%s bytes)" % (n, None if c is None else len(c))
    # "a key the host regards as attested is always present, complete and readable in the local key store"
    g = o["latched"]
    damaged_before = g is not None and g == scn["latched"] and (g + ".key") in init_bad
    if g is not None and not damaged_before:
        c = o["files"].get(g + ".key")
        j = whole_key(c) if c is not None else None
        mine = [k for k in issued if k["guid"] == g]
        if j is None or j["guid"] != g or not any(j["key"] == k["key"] for k in mine):
            return "the host has latched %s but the key store does not hold that key (file: %s)" % (g, "absent" if c is None else "%d bytes" % len(c))
    # "the agent never attests a key it has not first stored and read back identically"
    for guid, ok in rec["attest_checks"]:
        if ok is None:
            return "the latched key was %s although nothing damaged its file and the host kept naming it" % guid
        if not ok:
            return "an attestation for %s reached the host while %s.key did not hold that key" % (guid, guid)
    # "is found there after restart, and is used without requesting a new one"
    r = rec.get("restart")
    if r is not None and "err" not in r and g is not None and not damaged_before:
        if r["key"] is None or r["key"][0] != g:
            return "restart: the host has latched %s but the restarted agent ended with key %s" % (g, r["key"] and r["key"][0])
        mine = [k for k in issued if k["guid"] == g]
        if not any(r["key"][1] == k["key"] for k in mine):
            return "restart: the restarted agent holds a different key value for %s" % g
        if any(q[0] == 3 for q in r["reqs"]):
            return "restart: the restarted agent requested a new key although %s is latched and stored" % g
    # "on restart it can still authenticate": with a healthy host the restarted agent ends up holding the key the host has latched
    if r is not None and "err" not in r and r.get("authenticates") is False:
        return ("restart: after %d healthy polls (requests %s) the restarted agent still holds no key the host has latched"
                % (r.get("polls_given"), r.get("requests_total")))
    # the first process of the scenario IS a restart when the scenario starts with a latched, stored key and a healthy first poll
    p0 = scn["polls"][0]
    g0 = scn["latched"]
    if g0 is not None and (g0 + ".key") in scn["init"] and (g0 + ".key") not in init_bad and p0["status_ok"] and p0["guid"] == "latch" \
            and not p0["rotate"] and not p0["local_fail"]:
        second_status = [i for i, q in enumerate(o["reqs"]) if q[0] == 0][1:2]
        first_poll = o["reqs"][:second_status[0]] if second_status else o["reqs"]
        if any(q[0] == 3 for q in first_poll):
            return "start-up on a directory that holds the latched key %s: the agent requested a new key in its first poll" % g0
    return None


# ----------------------------------------------------------------------------------------
def coq_hscript(scn, cfg, items):
    docf = "(fun g => %s)" % kkdrv.coq_doc(doc_for(scn, cfg, None), items).replace("d_guid := (@None bytes)", "d_guid := g")
    assert "d_guid := g" in docf
    guid = "None" if cfg["guid"] == "latch" else "(Some %s)" % copt(cb(cfg["guid"]) if cfg["guid"] is not None else None, "bytes")
    sf = "None"
    if cfg["store_fail"] == "rename":
        sf = "(Some (N.to_nat 1000000))"         # clipped to "everything but the rename"
    return ("{| hs_rotate := %s; hs_status_ok := %s; hs_doc := %s; hs_guid := %s; hs_keys := %s; hs_acq := %d%%N; "
            "hs_store := %s; hs_att := %d%%N; hs_local_fail := %s; hs_reissue := %s |}" % (vplib.cbool(cfg["rotate"]), vplib.cbool(cfg["status_ok"]), docf, guid,
                                                    clist([kkdrv.coq_key(k) for k in scn["keys"]], "key"), cfg["acq"], sf, cfg["att"],
                                                    vplib.cbool(cfg.get("local_fail", False)), vplib.cbool(cfg.get("reissue", False))))


def coq_scenario_parts(scn, items):
    fs = clist(["(%s, %s)" % (cb(n), cb(c)) for n, c in scn["init"].items()], "(path * bytes)%type")
    issued = clist([kkdrv.coq_key(k) for k in reversed(scn["keys"][:scn["issued"]])], "key")
    st = "(fs_of_list %s, {| h_issued := %s; h_latched := %s |})" % (
        fs, issued, copt(cb(scn["latched"]) if scn["latched"] is not None else None, "bytes"))
    paths = clist([cb(p) for p in scn["paths"]], "path")
    polls = clist([coq_hscript(scn, c, items) for c in scn["polls"]], "hscript")
    return paths, st, polls, coq_hscript(scn, P(reissue=bool(scn.get("reissue"))), items)


def coq_summaries(scn, items):
    paths, st, polls, r = coq_scenario_parts(scn, items)
    return "scenario_summaries %s %s kk_init %s 0" % (paths, st, polls)


def coq_skeleton(scn, items):
    paths, st, polls, r = coq_scenario_parts(scn, items)
    return "scenario_skeleton %s kk_init %s" % (st, polls)


def coq_points(scn, items, want):
    paths, st, polls, r = coq_scenario_parts(scn, items)
    return "scenario_points %s %s kk_init %s %s [] 0%%nat %s" % (
        paths, st, polls, r, clist(["%d%%nat" % n for n in sorted(want)], "nat"))


def _reqs(l):
    return [[c, b2s(g)] for (c, g) in l]


def _digs(l):
    return [None if d is None else [d[1][0], d[1][1]] for d in l]


def _okey(k):
    return None if k is None else [b2s(k[1][0]), b2s(k[1][1]), (None if k[1][2] is None else k[1][2][1])]


def _lat(x):
    return None if x is None else b2s(x[1])


def norm_point(pt):
    """parsed model crash point -> comparable python values"""
    idx, pre, (dig, latched, nissued), (r_reqs, r_key, r_state, (r_dig, r_latched, r_nissued)) = pt
    return {"index": idx, "reqs": _reqs(pre), "digest": _digs(dig), "latched": _lat(latched), "issued": nissued,
            "restart": {"reqs": _reqs(r_reqs), "key": _okey(r_key), "state": b2s(r_state), "digest": _digs(r_dig),
                        "latched": _lat(r_latched), "issued": r_nissued}}


def pick(rng, count, want):
    ns = list(range(1, count + 1))
    if count <= want:
        return ns
    mid = rng.sample(ns[2:-2], max(0, want - 4))
    return sorted(set(ns[:2] + ns[-2:] + mid))


def run(ctx):
    consts_problem = None
    try:
        vplib.gen_consts(ctx)
    except vplib.Violation as v:
        # a constant the model needs is gone: still run the implementation against the last model so
        # that a concrete failing input is reported if there is one
        consts_problem = v
        ctx.log("constants translator failed, continuing with the previous Consts.v: %s" % v)
    proofs_ok, detail = vplib.check_proofs(ctx)
    ctx.log("proofs:", proofs_ok, detail[:200])
    bins = vplib.cargo_build(ctx, "harness", ["c09"])
    binary = kkdrv.install_binary(ctx, bins["c09"])
    SHIM[0] = os.path.join(ctx.scratch, "c08_openfail.so")
    vplib.sh(["clang", "-shared", "-fPIC", "-O1", "-o", SHIM[0], os.path.join(vplib.VERIF, "tools", "c08_openfail.c"), "-ldl"], check=True)
    rng = ctx.rng
    scns = scenarios()
    root = os.path.join(ctx.scratch, "c08")
    os.makedirs(root, exist_ok=True)
    disagreements, failures = [], []

    # ---------------- codec: Model.encode / decode vs serde on the real Key ----------------
    aux = kkdrv.Driver(binary)
    ckeys = [mk_key(G[0]), mk_key(G[1], inc=0), mk_key(G[2], inc=4294967295)]
    alphabet = ['"', "\\", "\n", "\t", "\r", "\b", "\f", "\x01", "\x1f", "\x7f", "é", "/", " ", "a", "Z", "0", "{", "}", ":", ",", " ", "𝄞"]
    for _ in range(25 if ctx.quick else 300):
        rs = lambda: "".join(rng.choice(alphabet) for _ in range(rng.randint(0, 12)))
        ckeys.append(mk_key(rs(), inc=rng.choice([None, 0, 7, 65536, 4000000000]), value=rs(), issued=rs(), scheme=rs()))
    exprs = []
    for k in ckeys:
        exprs.append("(encode %s, option_map key_out (decode (encode %s)))" % (kkdrv.coq_key(k), kkdrv.coq_key(k)))
    cuts = []
    for k in ckeys[:12]:
        full = kkdrv.key_file_bytes(k)
        for cut in sorted({0, 1, len(full) - 1, len(full) - 2, rng.randrange(len(full)), rng.randrange(len(full))}):
            cuts.append((k, full[:cut]))
            exprs.append("option_map key_out (decode %s)" % cb(full[:cut]))
    res = vplib.coq_eval(ctx, "From GPA Require Import KeyStore.", exprs, shard=16, name="codec")
    codec_cases = 0
    for k, r in zip(ckeys, res[:len(ckeys)]):
        real = aux.cmd({"cmd": "codec", "key": k})
        codec_cases += 1
        m_hex = bytes(r[0]).hex()
        back = real.get("back") or {}
        m_back = None if r[1] is None else [b2s(r[1][1][0]), b2s(r[1][1][1]), None if r[1][1][2] is None else r[1][1][2][1]]
        i_back = [back.get("guid"), back.get("key"), back.get("incarnationId")]
        if m_hex != real.get("hex") or m_back != i_back:
            disagreements.append({"case": {"codec": k}, "model": [m_hex, m_back], "impl": [real.get("hex"), i_back]})
    for (k, pre), r in zip(cuts, res[len(ckeys):]):
        real = aux.cmd({"cmd": "decode", "hex": pre.hex()})
        codec_cases += 1
        if (r is None) != (real.get("key") is None):
            disagreements.append({"case": {"decode_prefix_of": k, "len": len(pre)}, "model": r, "impl": real.get("key")})
    aux.close()

    # ---------------- model, phase 1: cheap summary of EVERY crash point of every scenario ----------------
    items = kkdrv.ItemTable()
    kkdrv.INTERN = kkdrv.Interner()
    sum_exprs = [coq_summaries(s, items) for s in scns]
    skel_exprs = [coq_skeleton(s, items) for s in scns]
    sres = vplib.coq_eval(ctx, "From GPA Require Import KeyStore.", sum_exprs, prelude=kkdrv.INTERN.prelude(), shard=1, name="c08sum")
    summaries = {}
    for s, r in zip(scns, sres):
        summaries[s["name"]] = [(nreq, tuple(None if l is None else l[1] for l in lens)) for (nreq, lens) in r]
    ctx.log("model: %s crash points" % sum(len(v) for v in summaries.values()))
    kres = vplib.coq_eval(ctx, "From GPA Require Import KeyStore.", skel_exprs, prelude=kkdrv.INTERN.prelude(), shard=1, name="c08skel")
    skeletons = {}
    for s, r in zip(scns, kres):
        sk = []
        for (c, pth) in r:
            pth = b2s(pth)
            if c == 11:
                if sk and sk[-1][0] == 11 and sk[-1][1] == pth:
                    sk[-1][2] += 1
                else:
                    sk.append([11, pth, 1])
            else:
                sk.append([c, pth])
        skeletons[s["name"]] = sk

    # ---------------- implementation: counting runs, then kill runs ----------------
    jobs = []
    finals = {}
    cres = {}

    def count_job(args):
        si, classes, tag = args
        sroot = os.path.join(root, "s%d%s" % (si, tag))
        os.makedirs(sroot, exist_ok=True)
        cres[(si, tag)] = count_calls(scns[si], binary, sroot, classes)

    orders = {}
    order_sample = None

    def order_job(si):
        sroot = os.path.join(root, "s%dord" % si)
        os.makedirs(sroot, exist_ok=True)
        orders[si] = order_run(scns[si], binary, sroot)

    from concurrent.futures import ThreadPoolExecutor
    slows = {}

    def slow_job(si):
        sroot = os.path.join(root, "s%dslow" % si)
        os.makedirs(sroot, exist_ok=True)
        slows[si] = slow_store_run(scns[si], binary, sroot)

    with ThreadPoolExecutor(max_workers=8) as ex:
        f1 = [ex.submit(count_job, a) for a in [(si, FS_CLASSES, "fs") for si in range(len(scns))] + [(si, NET_CLASSES, "net") for si in range(len(scns))]]
        f2 = [ex.submit(order_job, si) for si in range(len(scns))]
        f3 = [ex.submit(slow_job, si) for si in range(len(scns)) if not scns[si].get("skip_classes")]
        for f in f1 + f2 + f3:
            f.result()
    for si, (obs_s, dump_s, checks_s) in slows.items():
        rec = {"obs": obs_s, "attest_checks": checks_s}
        why = prop_check(scns[si], rec)
        if why:
            failures.append({"case": {"scenario": scns[si]["name"], "slow_store": "strace -e inject=write:delay_exit=3000 on the temp key file",
                                      "_replay": "tools/vp check C08"},
                             "why": why, "impl": {"files": {n: (None if c is None else len(c)) for n, c in obs_s["files"].items()}, "latched": obs_s["latched"]}})
    for si, s in enumerate(scns):
        ev = orders[si]
        # model order vs system-call order (opens / reads of a key file are folded into its look-up)
        i_sk = canon_order(ev)
        if i_sk != canon_order(skeletons[s["name"]]):
            disagreements.append({"case": {"scenario": s["name"], "order_of_calls": True}, "model": skeletons[s["name"]], "impl": i_sk})
        if si == 0:
            order_sample = {"scenario": s["name"], "observed_call_order": i_sk, "model_order": canon_order(skeletons[s["name"]])}
        why = prop_order(ev)
        if why:
            failures.append({"case": {"scenario": s["name"], "_replay": "tools/vp check C08 (un-killed run of this scenario under strace -y)"},
                             "why": why, "impl": ev})
    for si, s in enumerate(scns):
        c1, obs, dump = cres[(si, "fs")]
        c2, obs2, dump2 = cres[(si, "net")]
        finals[s["name"]] = (obs, dump)
        counts = dict(c1, **c2)
        s["counts"] = counts
        for cls, cnt in counts.items():
            if cls in s.get("skip_classes", []):
                continue
            want = cnt if not ctx.quick else (8 if cls == "write" else 4 if cls in ("socket", "shutdown", "statx", "read", "connect") else 6)
            for n in pick(rng, cnt, want):
                jobs.append((si, cls, n))
    ctx.log("kill points: %d (of %d calls on the paths)" % (len(jobs), sum(sum(s["counts"].values()) for s in scns)))
    records = [None] * len(jobs)
    lock = threading.Lock()
    nxt = [0]

    def worker(w):
        rdrv = kkdrv.Driver(binary)
        done = 0
        try:
            while True:
                with lock:
                    j = nxt[0]
                    nxt[0] += 1
                if j >= len(jobs):
                    return
                si, cls, n = jobs[j]
                s = scns[si]
                wroot = os.path.join(root, "w%d" % w)
                killed, obs, dump, host, kd, ld = first_process(s, binary, wroot, cls, n)
                rec = {"scenario": s["name"], "class": cls, "n": n, "killed": killed, "obs": obs, "attest_checks": list(host.attest_checks)}
                if killed:
                    if done and done % 150 == 0:
                        rdrv.close()
                        rdrv = kkdrv.Driver(binary)
                    try:
                        rec["restart"] = restart_process(s, rdrv, host, kd, ld)
                    except kkdrv.DriverDied as e:
                        rec["restart"] = {"err": "restarted agent died: %s" % e}
                        rdrv.close()
                        rdrv = kkdrv.Driver(binary)
                    rec["attest_checks"] = list(host.attest_checks)
                    done += 1
                records[j] = rec
        finally:
            rdrv.close()

    ths = [threading.Thread(target=worker, args=(w,)) for w in range(8)]
    for t in ths:
        t.start()
    for t in ths:
        t.join()

    ctx.log("kill runs done: %d killed" % sum(1 for r in records if r["killed"]))
    # ---------------- model, phase 2: the crash points the observations propose, evaluated in full ----------------
    def summary_of(scn, o):
        return (len(o["reqs"]), tuple(None if o["files"].get(p) is None else len(o["files"][p]) for p in scn["paths"]))

    want = {s["name"]: set() for s in scns}
    for rec in records:
        if rec["killed"]:
            s = next(x for x in scns if x["name"] == rec["scenario"])
            sm = summary_of(s, rec["obs"])
            want[s["name"]].update(i for i, x in enumerate(summaries[s["name"]]) if x == sm)
    pt_exprs = [coq_points(s, items, want[s["name"]]) for s in scns]
    mres = vplib.coq_eval(ctx, "From GPA Require Import KeyStore.", pt_exprs, prelude=kkdrv.INTERN.prelude(), shard=1, name="c08")
    kkdrv.INTERN = None
    model = {}
    for s, r in zip(scns, mres):
        pts, (f_pre, (f_dig, f_lat, f_n), f_key, f_state) = r
        model[s["name"]] = {"points": [norm_point(p) for p in pts],
                            "final": {"reqs": _reqs(f_pre), "digest": _digs(f_dig), "latched": _lat(f_lat), "issued": f_n,
                                      "key": _okey(f_key), "state": b2s(f_state)}}
    ctx.log("model: %d crash points evaluated in full (with restart)" % sum(len(v["points"]) for v in model.values()))

    # ---------------- compare ----------------
    matched_states = {s["name"]: set() for s in scns}
    last_ix = {}
    n_killed = 0
    samples = []
    for rec in records:
        s = next(x for x in scns if x["name"] == rec["scenario"])
        mp = model[s["name"]]["points"]
        o = rec["obs"]
        case = {"scenario": rec["scenario"], "syscall": rec["class"], "kill_at": rec["n"],
                "_replay": "tools/vp check C08 (scenario and kill point are deterministic: strace -f -e trace=%s -e inject=%s:signal=SIGKILL:when=%d)" % (rec["class"], rec["class"], rec["n"])}
        if not rec["killed"]:
            continue        # the N-th call lies after the last poll of the scenario (counted during shutdown)
        n_killed += 1
        if o["unexpected_files"]:
            disagreements.append({"case": case, "model": "only <guid>.key / <guid>.tmp in the key directory", "impl": o["unexpected_files"]})
        key = (json.dumps(o["reqs"]), json.dumps(o["digest"]), o["latched"], o["issued"])
        ix = [i for i, p in enumerate(mp) if (json.dumps(p["reqs"]), json.dumps(p["digest"]), p["latched"], p["issued"]) == key]
        if not ix:
            disagreements.append({"case": case, "model": "some crash point of the modelled trace",
                                  "impl": {"reqs": o["reqs"], "files": {n: (None if c is None else len(c)) for n, c in o["files"].items()}, "latched": o["latched"], "issued": o["issued"]}})
        else:
            matched_states[s["name"]].add(key)
            lk = (rec["scenario"], rec["class"])
            if rec["class"] in FS_CLASSES and lk in last_ix and mp[ix[-1]]["index"] < last_ix[lk][0]:
                disagreements.append({"case": case, "model": "crash points advance with the kill index",
                                      "impl": "kill at %d matches an earlier model point than kill at %d" % (rec["n"], last_ix[lk][1])})
            last_ix[lk] = (mp[ix[0]]["index"], rec["n"])
            r = rec.get("restart") or {}
            if "err" in r:
                disagreements.append({"case": case, "model": mp[ix[0]]["restart"], "impl": r["err"]})
            else:
                i_r = {k2: r[k2] for k2 in ("reqs", "key", "state", "digest", "latched", "issued")}
                if i_r != mp[ix[0]]["restart"] or r.get("panics"):
                    disagreements.append({"case": case, "model": mp[ix[0]]["restart"], "impl": dict(i_r, panics=r.get("panics"))})
            if len(samples) < 3 and o["latched"] and rec["class"] in ("recvfrom", "shutdown"):
                samples.append({"scenario": rec["scenario"], "kill": "%s #%d" % (rec["class"], rec["n"]), "host_latched": o["latched"],
                                "files": {n: len(c or b"") for n, c in o["files"].items()}, "restart_key": r.get("key"), "restart_requests": r.get("reqs"),
                                "model_restart": mp[ix[0]]["restart"]["key"]})
        why = prop_check(s, rec)
        if why:
            failures.append({"case": case, "why": why, "impl": {"files": {n: (None if c is None else len(c)) for n, c in o["files"].items()},
                                                                 "latched": o["latched"], "restart": {k2: v for k2, v in (rec.get("restart") or {}).items() if k2 != "files"}}})
    # complete runs
    for s in scns:
        obs, dump = finals[s["name"]]
        fin = model[s["name"]]["final"]
        i_fin = {"reqs": obs["reqs"], "digest": obs["digest"], "latched": obs["latched"], "issued": obs["issued"],
                 "key": None if dump is None or dump["key_guid"] is None else [dump["key_guid"], dump["key_value"], dump["key_incarnation"]],
                 "state": None if dump is None else dump["state"]}
        if i_fin != fin:
            disagreements.append({"case": {"scenario": s["name"], "complete_run": True}, "model": fin, "impl": i_fin})
    # thorough: every model state outside the byte-by-byte part of the write must have been observed
    if len(records) and n_killed < 0.5 * len(records):
        disagreements.append({"case": {"kill_runs": len(records)}, "model": "most selected kill points lie on the path", "impl": "only %d runs were killed" % n_killed})
    if not ctx.quick:
        for s in scns:
            if s.get("skip_classes"):
                continue        # a class that cannot be used for kills here hides the states right before its calls
            full_len = {k["guid"] + ".tmp": len(kkdrv.key_file_bytes(k)) for k in s["keys"]}
            seen = {summary_of(s, rec["obs"]) for rec in records if rec["killed"] and rec["scenario"] == s["name"]}
            for sm in summaries[s["name"]]:
                inside_write = any(l is not None and pth.endswith(".tmp") and l not in (0, full_len.get(pth)) for l, pth in zip(sm[1], s["paths"]))
                if sm not in seen and not inside_write:
                    disagreements.append({"case": {"scenario": s["name"]}, "model": {"crash point never observed (requests, lengths)": [sm[0], list(sm[1])]},
                                          "impl": "no kill point produced this state"})
                    break

    total_points = sum(len(v) for v in summaries.values())
    ctx.coverage.update({
        "evaluations": n_killed + len(scns) + codec_cases,
        "distinct_nontrivial": sum(len(v) for v in matched_states.values()),
        "traces_validated_against_impl": len(scns) - len({d["case"].get("scenario") for d in disagreements if isinstance(d.get("case"), dict) and d["case"].get("scenario")}),
        "rule": "21 scenarios (channel disabled and re-enabled between polls while the host keeps naming its latch; key directories with 6-9 older key files sorting below and above the latched guid; a host that re-issues its unattested key; transient EMFILE / EIO on the look-up of an intact latched key file (LD_PRELOAD shim), then healthy restart; fresh latch v1.0 / v2.0, restart with key, rotation (latch dropped / other guid named), unreadable local key, foreign guid, acquire answer lost, "
                "attest answer lost, attest refused, status error, rename fails) x SIGKILL on entering the N-th call of each of "
                "openat/write/rename/read/statx on the key files and socket/connect/writev/recvfrom/shutdown (%s), then restart on the "
                "surviving directory; the observed (key directory, host latch, issued count, request log) must be one of the model's "
                "crash points and the restart must do what the model predicts from it; non-trivial = distinct observed world state" % (
                    "stratified sample" if ctx.quick else "every N"),
        "exhaustive": not ctx.quick,
        "samples": samples + [order_sample],
        "input_distribution": {"scenarios": len(scns), "kill_runs": n_killed, "model_crash_points": total_points,
                               "calls_on_path": {s["name"]: s["counts"] for s in scns}, "codec_cases": codec_cases,
                               "kills_with_host_latched": sum(1 for r in records if r["obs"]["latched"]),
                               "kills_inside_write": sum(1 for r in records if r["class"] == "write")},
    })
    ctx.assumptions += [
        "crash = process death (SIGKILL): completed system calls persist; power loss / missing fsync is not modelled",
        "the syscall -> model event mapping in this file's header is trusted",
        "guids are plain file names (non-empty, no '.', '/'); the .encrypted lookup that precedes the .key lookup is a no-op on Linux",
        "Model.decode is exact on the image of Model.encode and its prefixes; other JSON texts are outside the model",
        "the host of Model/KeyStore.v (issues on acquire, latches on attest, reports its latch) is the mock's behaviour",
        "transient local read faults are injected by tools/c08_openfail.c (LD_PRELOAD: the first read-only open of <guid>.key fails)",
    ]
    for name in kkdrv.pinned_consts():
        ctx.assumptions.append("constant %s not located in the source: pinned default used, tied by the correspondence run only" % name)
    if consts_problem is not None:
        proofs_ok, detail = False, "constants translator: %s" % consts_problem
    verdict(ctx, proofs_ok, detail, disagreements, failures,
            corr_name="KeyStore.trace crash points vs strace-killed KeyKeeper (key directory, host state, restart)")
