"""C02 -- RBAC decision equals the declared rule semantics, deterministically.
Model: coq/Model/Rbac.v; theorems: coq/Props/C02.v; implementation: serde_json ->
AuthorizationItem -> ComputedAuthorizationItem::from_authorization_item -> is_allowed, called
through harness/src/bin/c02.rs.  Generators, the Python reading of the property text and the
class predicates of the findings are in tools/checks/rbac_gen.py."""
import json

import vplib
from vplib import clist
from checks.common import verdict
from checks import rbac_gen as G

BRANCH = {0: "disabled", 1: "identity", 2: "privilege_only", 3: "default"}
MODE = {0: "disabled", 1: "audit", 2: "enforce"}


def bs(l):
    return bytes(l).decode("utf-8", "replace")


def model_summary(t):
    """(default, mode, privs, assign, ids) as printed by Coq -> the driver's canonical form"""
    default, mode, privs, assign, ids = t
    return {"default": default, "mode": MODE[mode], "privs": sorted(bs(p) for p in privs),
            "ids": sorted(bs(i) for i in ids),
            "assign": sorted([bs(k), sorted(bs(x) for x in s)] for k, s in assign)}


def impl_summary(s):
    return {"default": s["default"], "mode": s["mode"], "privs": sorted(s["privs"]), "ids": sorted(s["ids"]),
            "assign": sorted([k, sorted(v)] for k, v in s["assign"])}


def replay_line(doc, reqs):
    return json.dumps({"doc": G.doc_to_json(doc), "reps": 3, "reqs": [G.claims_to_req(c, u) for c, u in reqs]})


def run(ctx):
    vplib.gen_consts(ctx)
    proofs_ok, detail = vplib.check_proofs(ctx)
    ctx.log("proofs:", proofs_ok, detail[:200])
    if proofs_ok and not ctx.quick:
        ok, log = vplib.coqchk(ctx)
        ctx.log("coqchk:", ok)
        if not ok:
            proofs_ok, detail = False, "coqchk rejected the compiled development: " + log[-600:]
    bins = vplib.cargo_build(ctx, "harness", ["c02"])
    rng = ctx.rng
    known_ids = {f.get("id") for f in vplib.known_findings("C02")}

    # ---------------- cases ----------------
    # a group = one rule document + a list of (claims, url); `rel` records the metamorphic relation
    # of a group to an earlier group / of a request to an earlier request of the same group
    scale = 1 if ctx.quick else 12
    streams = [("structured", 150 * scale, dict()), ("no_duplicate_names", 150 * scale, dict(allow_dups=False)),
               ("malformed", 40 * scale, dict(malformed=True)), ("non_ascii", 40 * scale, dict(nonascii=True, allow_dups=False))]
    groups = []
    for sname, n, kw in streams:
        for _ in range(n):
            doc = G.normalize_doc(G.gen_doc(rng, **kw))
            reqs, url_rel = [], []
            for j in range(4):
                t = G.gen_targeted(rng, doc) if j == 0 else None     # one request along a complete grant chain
                reqs.append(t or (G.gen_claims_for(rng, doc), G.gen_url_for(rng, doc)))
            for i in range(2):                      # letter case of the request changed
                c, u = reqs[i]
                reqs.append((c, G.recase_url(rng, u)))
                url_rel.append((i, len(reqs) - 1))
            base = len(groups)
            groups.append({"stream": sname, "doc": doc, "reqs": reqs, "url_rel": url_rel, "rel": None})
            if sname != "malformed" and rng.random() < 0.45:
                groups.append({"stream": sname, "doc": G.permute_doc(rng, doc), "reqs": reqs, "url_rel": url_rel,
                               "rel": ("listing order", base)})
            if sname in ("structured", "no_duplicate_names") and rng.random() < 0.45:
                groups.append({"stream": sname, "doc": G.recase_doc(rng, doc, rng.choice(["lower", "upper", None])),
                               "reqs": reqs, "url_rel": url_rel, "rel": ("letter case of the rule's paths and query parameters", base)})

    # ---------------- implementation ----------------
    reps = 3 if ctx.quick else 5                    # independently built (re-hashed) copies of each rule set
    lines = [json.dumps({"doc": G.doc_to_json(g["doc"], rng.choice(["absent", "null"])), "reps": reps,
                         "reqs": [G.claims_to_req(c, u) for c, u in g["reqs"]]}) for g in groups]
    out = [json.loads(l[3:]) for l in vplib.run_lines(bins["c02"], lines) if l.startswith("@@ ")]
    assert len(out) == len(lines), (len(out), len(lines))
    ctx.log("implementation: %d documents, %d decisions" % (len(groups), sum(len(g["reqs"]) for g in groups)))

    # ---------------- model (vm_compute inside coqc) ----------------
    exprs = []
    for g, o in zip(groups, out):
        if "err" in o:
            raise RuntimeError("driver rejected a generated document: %s\n%s" % (o["err"], G.doc_to_json(g["doc"])))
        pairs = []
        for (c, u), r in zip(g["reqs"], o["res"]):
            if "err" in r:
                raise RuntimeError("driver rejected a generated URL %r: %s" % (u, r["err"]))
            py_p, py_q = G.split_url(u)
            if (r["path"], r["query"] or "") != (py_p, py_q):
                raise RuntimeError("URL split differs from hyper::Uri on %r: %r vs %r" % (u, (r["path"], r["query"]), (py_p, py_q)))
            pairs.append("(%s, %s)" % (G.coq_url(r["path"], r["query"] or ""), G.coq_claims(c)))
        exprs.append("let c := compute %s in (summary c, map (fun r => (is_allowed c (fst r) (snd r), "
                     "is_allowed_current c (fst r) (snd r), branch_code (branch_of true c (fst r) (snd r)))) %s)"
                     % (G.coq_item(g["doc"]), clist(pairs)))
    shard = max(20, (len(exprs) + 7) // 8)
    model = vplib.coq_eval(ctx, "From GPA Require Import Rbac.", exprs, shard=shard, timeout=1500)
    ctx.log("model: %d expressions evaluated" % len(exprs))

    # ---------------- compare + property on the implementation's behaviour ----------------
    disagreements, failures = [], []
    total = 0
    outside = 0
    branches = {s[0]: {b: 0 for b in BRANCH.values()} for s in streams}
    impl_branch_all = {b: 0 for b in BRANCH.values()}
    nondup_docs = dup_docs = f1_docs = 0
    samples = []
    decisions = []                                   # per group: list of impl decisions
    faithful = []                                    # per group: impl follows the model on every request
    for gi, (g, o, m) in enumerate(zip(groups, out, model)):
        doc = g["doc"]
        dups, f1c, outm = G.has_duplicate_names(doc), G.f1_class(doc), G.outside_model(doc)
        dup_docs += dups
        nondup_docs += not dups
        f1_docs += f1c
        msum, mres = model_summary(m[:5]), m[5]
        isum = impl_summary(o["sum"])
        if msum != isum:
            disagreements.append({"case": {"doc": doc, "what": "flattened item (from_authorization_item)"}, "model": msum, "impl": isum})
        if any(k != v for k, v in o["sum"]["pnames"]):
            disagreements.append({"case": {"doc": doc, "what": "privilege map key differs from the stored privilege's name"},
                                  "model": "equal", "impl": o["sum"]["pnames"]})
        ds, ok_all = [], True
        for ri, ((c, u), r, (mfix, mcur, mbr)) in enumerate(zip(g["reqs"], o["res"], mres)):
            total += 1
            case = {"doc": doc, "claims": dict(c, p=c["p"].hex(), e=c["e"].hex()), "url": u,
                    "replay": "echo '%s' | .target/debug/c02" % replay_line(doc, [(c, u)])}
            d = r["d"]
            if any(x != d[0] for x in d) or not isinstance(d[0], bool):
                failures.append({"case": case, "why": "the decision is not a function of (rules, caller, URL): %r on identically built rule sets" % d,
                                 "impl": d, "known_class": None})
                ds.append(None)
                ok_all = False
                continue
            dec = d[0]
            ds.append(dec)
            follows_fixed = dec == mfix
            follows_cur = dec == mcur
            if not follows_fixed:
                ok_all = False
                if outm:
                    outside += 1                     # Unicode case folding: outside the model (DESIGN 2.1)
                elif not ("F1" in known_ids and f1c and follows_cur):
                    disagreements.append({"case": case, "model": {"decision": mfix, "branch": BRANCH[mbr], "pinned_is_match": mcur},
                                          "impl": dec})
            py_p, py_q = G.split_url(u)
            want, br = G.spec_decide(doc, c, py_p, py_q)
            branches[g["stream"]][br] += 1
            if follows_fixed:
                impl_branch_all[BRANCH[mbr]] += 1
            if dec != want:
                kc = None
                if dups and (follows_fixed or outm):
                    kc = "F2"
                elif f1c and follows_cur and not follows_fixed:
                    kc = "F1"
                failures.append({"case": case, "impl": dec, "known_class": kc,
                                 "why": "decision %s but the rule semantics give %s (branch %s) for URL %r" % (
                                     "allow" if dec else "deny", "allow" if want else "deny", br, u)})
            if len(samples) < 3 and dec == want == mfix and br != "disabled" and br not in [x["branch"] for x in samples]:
                samples.append({"doc": G.doc_to_json(doc), "claims": case["claims"], "url": u, "impl": dec,
                                "model": mfix, "property_text": want, "branch": br})
        decisions.append(ds)
        faithful.append(ok_all)
        # letter case of the request
        for i, j in g["url_rel"]:
            if ds[i] is not None and ds[j] is not None and ds[i] != ds[j]:
                failures.append({"case": {"doc": doc, "claims": dict(g["reqs"][i][0], p=g["reqs"][i][0]["p"].hex(), e=g["reqs"][i][0]["e"].hex()),
                                          "url": g["reqs"][i][1], "url_recased": g["reqs"][j][1],
                                          "replay": "echo '%s' | .target/debug/c02" % replay_line(doc, [g["reqs"][i], g["reqs"][j]])},
                                 "impl": [ds[i], ds[j]], "known_class": None,
                                 "why": "the decision depends on the letter case of the request: %r -> %s, %r -> %s" % (
                                     g["reqs"][i][1], ds[i], g["reqs"][j][1], ds[j])})
        # listing order / letter case of the rule
        if g["rel"]:
            what, bi = g["rel"]
            b = groups[bi]
            for ri, (x, y) in enumerate(zip(decisions[bi], ds)):
                if x is not None and y is not None and x != y:
                    kc = None
                    if (G.has_duplicate_names(b["doc"]) or dups) and faithful[bi] and ok_all:
                        kc = "F2"
                    elif "listing" not in what and (G.f1_class(b["doc"]) or f1c):
                        kc = "F1"
                    failures.append({"case": {"doc": b["doc"], "doc_variant": doc, "url": g["reqs"][ri][1],
                                              "claims": dict(g["reqs"][ri][0], p=g["reqs"][ri][0]["p"].hex(), e=g["reqs"][ri][0]["e"].hex()),
                                              "replay": "printf '%%s\\n%%s\\n' '%s' '%s' | .target/debug/c02" % (
                                                  replay_line(b["doc"], [g["reqs"][ri]]), replay_line(doc, [g["reqs"][ri]]))},
                                     "impl": [x, y], "known_class": kc,
                                     "why": "the decision depends on the %s: %s vs %s for URL %r" % (what, x, y, g["reqs"][ri][1])})

    first_example = {}

    def known_filter(f):
        """one KNOWN-FINDING line per recorded class (with the first example met), only for classes
        listed with status "known" in known_findings.json"""
        kc = f.get("known_class")
        if kc not in ("F1", "F2") or kc not in known_ids:
            return None
        first_example.setdefault(kc, f["why"])
        if kc == "F2":
            return ("F2 duplicate names (privilege/role/identity names, or query-parameter keys equal up to case): the last "
                    "listed wins, so the decision depends on the listing order and differs from the reading 'some "
                    "privilege of that name' -- e.g. %s" % first_example[kc])
        return "F1 a privilege whose path contains an upper-case letter never matches -- e.g. %s" % first_example[kc]

    n_fail_known = sum(1 for f in failures if known_filter(f))
    ctx.coverage.update({
        "evaluations": total,
        "distinct_nontrivial": len({(json.dumps(g["doc"], sort_keys=True), json.dumps(dict(c, p=c["p"].hex(), e=c["e"].hex()), sort_keys=True), u)
                                    for g in groups for c, u in g["reqs"]
                                    if G.parse_mode_py(g["doc"]["mode"]) != "disabled" and G.sections(g["doc"])}),
        "traces_validated_against_impl": total - len(disagreements),
        "rule": "(rule document, caller, URL) triples: documents from four streams (structured with frequent duplicate and dangling names over a 5-name alphabet; the same without duplicate names; malformed: missing/null sections, odd mode and defaultAccess strings; non-ASCII rule strings), 4 requests aimed at the document's privileges and identities (one built along a complete grant chain with at most one attribute slightly changed; matches and near misses, duplicate/valueless/empty query keys, exe-path spellings, non-UTF-8 process names) + 2 letter-case variants of requests; 45% of documents again with every listing shuffled, 45% again with the letter case of the rule's paths/query parameters changed; each document flattened 3 times (fresh hash seeds). distinct_nontrivial = distinct triples whose mode is not disabled and whose document has all four sections",
        "exhaustive": False,
        "samples": samples,
        "input_distribution": {
            "documents": len(groups), "documents_with_duplicate_names": dup_docs, "documents_without_duplicate_names": nondup_docs,
            "documents_with_upper_case_rule_path": f1_docs,
            "listing_order_variants": sum(1 for g in groups if g["rel"] and "listing" in g["rel"][0]),
            "rule_case_variants": sum(1 for g in groups if g["rel"] and "listing" not in g["rel"][0]),
            "request_case_variants": sum(len(g["url_rel"]) for g in groups),
            "decision_branch_by_stream_per_property_text": branches,
            "decision_branch_model_on_agreeing_cases": impl_branch_all,
            "non_ascii_cased_disagreements_outside_model": outside,
            "property_failures_in_known_classes": n_fail_known,
        },
    })
    ctx.assumptions += [
        "the model is tied to the code by differential execution on the cases above, not by translation",
        "interpretation: a rule document lacking any of its four sections defines no privilege (the code's reading); an unknown mode string disables the rule set",
        "interpretation: the value of a request query parameter that occurs more than once is its first occurrence; exePath equality is std::path component equality",
        "ascii_cased: the model's lower-casing is ASCII; Rust's to_lowercase agrees with it on strings whose cased characters are ASCII (every request URL: http::Uri admits only ASCII). Rule strings with other cased characters are exercised (non_ascii stream) and judged by the Python reading (Unicode-aware) only",
        "serde_json / hyper::Uri are modelled, not verified (exercised through the real code on every case)",
    ]
    verdict(ctx, proofs_ok, detail, disagreements, failures, known_filter,
            corr_name="Rbac.compute/is_allowed vs ComputedAuthorizationItem::from_authorization_item/is_allowed")
