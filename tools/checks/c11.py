"""C11 -- Enforce blocks, audit forwards and records; every denial is recorded once.
Models: coq/Model/Server.v (handle), Model/Authorizer.v + Rbac.v (decision), Model/Summary.v (key, actor maps,
publication); theorems: coq/Props/C11.v; implementation: the REAL proxy listener, authorizer, agent-status
actor and ProxyAgentStatusTask, driven end to end by tools/e2e.py (hook H1 for the callers' records).

A history is 5-60 requests on several connections from 1-4 callers (distinct uid / process / command line,
including two whose executable path and command line collide under a space-joined key) against generated
rule sets in each mode on each endpoint, sequential (with rule changes and summary clears between
connections) or with all connections concurrent.  Observed: client status, what each mock host received,
get_all_failed_connection_summary() and the status.json a real ProxyAgentStatusTask wrote."""
import grp
import json
import os
import pwd
import shutil
import subprocess

import vplib
import e2e
from e2e import scenario, conn, req, audit, http_request, IMDS, WIRESERVER, HOSTGA, OTHER, SELF
from vplib import cb, clist, copt
from checks import rbac_gen as G
from checks.common import verdict

ENDPOINT_KEY = {WIRESERVER: "wireserver", HOSTGA: "hostga", IMDS: "imds"}
FORBIDDEN = "403 Forbidden"
TARGETS = ["/metadata/instance?api-version=2021-02-01", "/metadata/identity/oauth2/token?resource=x",
           "/machine?comp=goalstate", "/machine/?comp=telemetrydata", "/vmsettings", "/other/path?a=1&b=2", "/",
           # '..' in the QUERY only: not a traversal, judged by the rules like any other request
           "/metadata/instance?api-version=2021-02-01&range=1..5", "/machine?comp=goalstate&file=..%2fx&v=1..2", "/vmsettings?x=..",
           # '..' in the PATH: refused with 404 before authorization, nothing recorded
           "/metadata/../instance?api-version=2021-02-01"]


# ------------------------------------------------------------------------------------------------
# callers: real processes whose /proc entries the agent reads
# ------------------------------------------------------------------------------------------------
def user_of(uid):
    try:
        pw = pwd.getpwuid(uid)
    except KeyError:
        return "undefined", []
    gids = os.getgrouplist(pw.pw_name, pw.pw_gid)
    names = []
    for g in gids:
        try:
            names.append(grp.getgrgid(g).gr_name)
        except KeyError:
            pass
    return pw.pw_name, names


class Procs:
    """helper processes with chosen executable paths and argument vectors (copies of `sleep`)"""

    def __init__(self, ctx):
        self.dir = os.path.join(ctx.scratch, "c11bin")
        os.makedirs(self.dir, exist_ok=True)
        self.sleep = os.path.realpath(shutil.which("sleep"))
        self.procs = []

    def spawn(self, exe_name, argv):
        path = os.path.join(self.dir, exe_name)
        if not os.path.exists(path):
            shutil.copy2(self.sleep, path)
        p = subprocess.Popen(argv, executable=path, stdin=subprocess.DEVNULL, stdout=subprocess.DEVNULL,
                             stderr=subprocess.DEVNULL)
        self.procs.append(p)
        return p.pid, path, " ".join(argv)

    def close(self):
        for p in self.procs:
            try:
                p.kill()
                p.wait(timeout=5)
            except Exception:
                pass


def make_callers(procs):
    """the pool of callers; exe / cmd of the driver itself ("self") are known only per result"""
    root, root_g = user_of(0)
    nob, nob_g = user_of(e2e.NOBODY_UID)
    und, und_g = user_of(e2e.MISSING_UID)
    pool = {}

    def add(name, uid, pid, exe, cmd):
        u, g = {0: (root, root_g), e2e.NOBODY_UID: (nob, nob_g)}.get(uid, (und, und_g))
        pool[name] = {"name": name, "uid": uid, "pid": pid, "admin": 1 if uid == 0 else 0, "user": u, "groups": g,
                      "exe": exe, "cmd": cmd}
    add("root-self", 0, "self", None, None)
    add("root-helper", 0, "helper", procs.sleep, "sleep 1000000")
    add("nobody-helper", e2e.NOBODY_UID, "helper", procs.sleep, "sleep 1000000")
    add("nouser-self", e2e.MISSING_UID, "self", None, None)
    pid, path, cmd = procs.spawn("a b", ["5", "600"])            # key part ".../a b 5 600"
    add("root-ab", 0, pid, path, cmd)
    pid, path, cmd = procs.spawn("a", ["b", "5", "600"])         # key part ".../a b 5 600"  (collides, F8)
    add("root-a", 0, pid, path, cmd)
    pid, path, cmd = procs.spawn("tool", ["my tool", "1", "600"])  # spaces in the command line only
    add("nobody-tool", e2e.NOBODY_UID, pid, path, cmd)
    pid, path, cmd = procs.spawn("tool", ["my tool", "2", "600"])  # same user and executable, another command line
    add("nobody-tool2", e2e.NOBODY_UID, pid, path, cmd)
    long_prefix = "svc-" + "x" * 300          # longer than any plausible key truncation, identical in both
    pid, path, cmd = procs.spawn("tool", [long_prefix + "-billing", "600"])
    add("nobody-longA", e2e.NOBODY_UID, pid, path, cmd)
    pid, path, cmd = procs.spawn("tool", [long_prefix + "-exporter", "600"])
    add("nobody-longB", e2e.NOBODY_UID, pid, path, cmd)
    # a process that exec()s another program between its connections (runner: exec_helpers / helper_exec)
    add("root-exec", 0, EXEC_NAME, "<exec>", "<exec>")
    pool["root-exec"]["exec"] = True
    # a crowd: 110 processes of one binary with distinct command lines (one summary entry each)
    for i in range(110):
        pid, path, cmd = procs.spawn("tool", ["crowd-%03d" % i, "600"])
        add("crowd-%03d" % i, e2e.NOBODY_UID, pid, path, cmd)
    return pool


CROWD = ["crowd-%03d" % i for i in range(110)]
EXEC_NAME = "h1"
EXEC_ARGV = ["tail", "-f", "/dev/null"]
BIG_LEN = 110000          # a chunked body above the 100 KiB limit of the non-exempt requests


def resolve(caller, result, c=None):
    """exe path and command line as the agent sees them for this caller (on connection c) in this run"""
    if caller.get("exec"):
        hp = (result.get("helpers") or {}).get(EXEC_NAME) or {}
        if c is not None and c.get("stage") == "after":
            return hp.get("exe_after") or "?", " ".join(EXEC_ARGV)
        return hp.get("exe_before") or "?", " ".join(["sh", "-c", 'read x; exec "$@"', "sh"] + EXEC_ARGV)
    if caller["exe"] is None:
        p = os.path.join(result["scratch"], "e2e")
        return p, p
    return caller["exe"], caller["cmd"]


# ------------------------------------------------------------------------------------------------
# generators
# ------------------------------------------------------------------------------------------------
def gen_doc(rng, callers, mode=None):
    mode = mode or rng.choice(["enforce", "audit", "disabled", "enforce", "audit", "Audit", "ENFORCE"])
    doc = {"defaultAccess": rng.choice(["allow", "deny", "deny"]), "mode": mode, "id": "r%d" % rng.randint(1, 99), "rules": None}
    if rng.random() < 0.55:
        privs = [{"name": "p1", "path": "/metadata", "q": None},
                 {"name": "p2", "path": "/machine", "q": [("comp", "goalstate")]},
                 {"name": "p3", "path": rng.choice(["/vmsettings", "/other", "/metadata/identity"]), "q": None}]
        privs = rng.sample(privs, rng.randint(1, 3))
        idents = []
        for i, c in enumerate(rng.sample(callers, rng.randint(1, len(callers)))):
            how = rng.choice(["user", "exe", "proc"])
            ident = {"name": "i%d" % i, "userName": None, "groupName": None, "exePath": None, "processName": None}
            if how == "user" or c["exe"] is None and how == "exe":
                ident["userName"] = c["user"]
            elif how == "exe":
                ident["exePath"] = c["exe"]
            else:
                ident["processName"] = "e2e" if c["exe"] is None else os.path.basename(c["exe"])
            idents.append(ident)
        roles = [{"name": "ro%d" % i, "privileges": [p["name"] for p in rng.sample(privs, rng.randint(1, len(privs)))]}
                 for i in range(rng.randint(1, 2))]
        asg = [{"role": r["name"], "identities": [i["name"] for i in rng.sample(idents, rng.randint(1, len(idents)))]}
               for r in roles]
        doc["rules"] = {"privileges": privs, "roles": roles, "identities": idents, "roleAssignments": asg}
    return doc


def gen_rules(rng, callers, mode=None):
    return {k: (gen_doc(rng, callers, mode) if rng.random() < 0.8 else None) for k in ("wireserver", "hostga", "imds")}


def gen_history(rng, idx, pool, concurrent):
    names = [n for n in pool if not n.startswith("crowd-") and not pool[n].get("exec")]
    k = rng.randint(1, 4)
    chosen = rng.sample(names, k)
    if rng.random() < 0.25 and not concurrent:
        # make sure the colliding pair meets in a good share of the sequential histories
        chosen = list(dict.fromkeys(["root-ab", "root-a"] + chosen))[:max(2, k)]
    if rng.random() < 0.15:
        chosen = list(dict.fromkeys(["nobody-longA", "nobody-longB"] + chosen))[:max(2, k)]
    if concurrent and "root-ab" in chosen and "root-a" in chosen:
        chosen.remove("root-a")          # which of two colliding callers comes first would be schedule-dependent
    callers = [pool[n] for n in chosen]
    mode = rng.choice([None, "enforce", "audit", "disabled"])
    rules = gen_rules(rng, callers, mode)
    total = rng.randint(5, 60)
    nconn = 4 if concurrent else rng.randint(1, min(8, total))
    sizes = [1] * nconn
    for _ in range(total - nconn):
        sizes[rng.randrange(nconn)] += 1
    conns = []
    cur = rules
    for ci in range(nconn):
        c = rng.choice(callers)
        dest = rng.choice([IMDS, IMDS, WIRESERVER, WIRESERVER, HOSTGA, OTHER, SELF] if rng.random() < 0.5 else [IMDS, WIRESERVER, HOSTGA])
        change = None
        clear = False
        if not concurrent and ci > 0:
            if rng.random() < 0.2:
                ep = rng.choice(["wireserver", "hostga", "imds"])
                cur = dict(cur)
                cur[ep] = gen_doc(rng, callers) if rng.random() < 0.85 else None
                change = ep
            if rng.random() < 0.1:
                clear = True
        reqs = []
        hot = rng.choice(TARGETS)
        conn_rules = cur
        for j in range(sizes[ci]):
            t = hot if rng.random() < 0.6 else rng.choice(TARGETS)      # repeated identical denials
            m = "GET" if rng.random() < 0.85 else "POST"
            rchange = None
            if not concurrent and j > 0 and rng.random() < 0.08:
                # the rules change while the connection is open: this request is judged by the NEW rules
                ep = ENDPOINT_KEY.get(dest) if rng.random() < 0.8 else None
                ep = ep or rng.choice(["wireserver", "hostga", "imds"])
                cur = dict(cur)
                old_doc = cur[ep]
                if old_doc is not None and rng.random() < 0.7:
                    nd = dict(old_doc)
                    nd["mode"] = rng.choice([x for x in ("enforce", "audit", "disabled") if x != G.parse_mode_py(old_doc["mode"])])
                    cur[ep] = nd
                else:
                    cur[ep] = gen_doc(rng, callers)
                rchange = ep
            reqs.append({"method": m, "target": t, "body": b"" if m == "GET" else b"k=v&x=%d" % j, "rules": cur, "change": rchange})
        if rng.random() < 0.12:
            reqs.append({"method": "POST", "target": rng.choice([TARGETS[0], TARGETS[1], TARGETS[5]]), "body": b"", "big": True,
                         "rules": cur, "change": None})
        conns.append({"id": ci + 1, "caller": c["name"], "dest": dest, "reqs": reqs, "rules": conn_rules, "change": change, "clear": clear})
    return {"idx": idx, "concurrent": concurrent, "callers": chosen, "rules": rules, "conns": conns,
            "key": rng.random() < 0.5, "status_task": rng.random() < 0.6,
            "host_status": rng.choice([200, 200, 200, 403, 403, 401, 500])}


def finalize(h):
    """every request carries the rules in force when it is sent (default: the connection's)"""
    for c in h["conns"]:
        c["reqs"] = [dict(rq) for rq in c["reqs"]]
        for rq in c["reqs"]:
            rq.setdefault("rules", c["rules"])
            rq.setdefault("change", None)
    return h


def all_rule_docs(h):
    for c in h["conns"]:
        for rq in c["reqs"]:
            for d in rq["rules"].values():
                yield d


def doc_json(d):
    return None if d is None else json.loads(G.doc_to_json(d))


def marker(h, c, j):
    return "h%dc%dr%d" % (h["idx"], c["id"], j)


def rules_json(rules):
    return {k: (None if d is None else json.loads(G.doc_to_json(d))) for k, d in rules.items()}


def to_scenario(h, pool, reference=False):
    cs = []
    for c in h["conns"]:
        who = pool[c["caller"]]
        reqs = []
        for j, r in enumerate(c["reqs"]):
            if r.get("big"):
                raw = http_request(r["method"], r["target"], [("Metadata", "true"), ("x-marker", marker(h, c, j)),
                                                              ("Transfer-Encoding", "chunked")])
            else:
                raw = http_request(r["method"], r["target"], [("Metadata", "true"), ("x-marker", marker(h, c, j))], body=r["body"])
            before = []
            if r["change"] and not reference:
                before.append({"op": "set_rules", "endpoint": r["change"], "item": doc_json(r["rules"][r["change"]])})
            if h.get("burst") and j == 0:
                # all connections are accepted first, then every request is sent at the same instant
                before += [{"op": "wait_trace", "port": 12000 + c["id"], "lookups": 1, "timeout_ms": 60000},
                           {"op": "barrier", "name": "burst-%d" % h["idx"], "n": len(h["conns"])}]
            kn = {"ops_before": before} if before else {}
            if r.get("big"):
                kn.update({"gen_body": {"len": BIG_LEN, "seed": 7, "chunk_sizes": [16384]}, "timeout_ms": 60000})
            reqs.append(req(raw, **kn))
        ops = list(c.get("ops") or []) if not reference else []
        if c.get("exec_before"):
            ops.append({"op": "helper_exec", "name": EXEC_NAME})
        if not reference:
            if c["change"]:
                d = c["rules"][c["change"]]
                ops.append({"op": "set_rules", "endpoint": c["change"], "item": None if d is None else json.loads(G.doc_to_json(d))})
            if c["clear"]:
                ops += [{"op": "snapshot", "label": "before-clear-%d" % c["id"]}, {"op": "clear_summary"}]
        knobs = {"ops_before_connect": ops} if ops else {}
        if h.get("burst"):
            knobs["local_port"] = 12000 + c["id"]
        cs.append(conn(reqs, audit=audit(c["dest"], uid=who["uid"], pid=who["pid"], is_admin=who["admin"]), id=c["id"], **knobs))
    sc = scenario({"c11": h["idx"], "ref": reference}, cs,
                  rules=None if reference else rules_json(h["rules"]),
                  key={"guid": "11111111-2222-3333-4444-555555555555", "key": "ab" * 32, "incarnation": 1} if h["key"] else None,
                  concurrent=h["concurrent"])
    if any(pool[c["caller"]].get("exec") for c in h["conns"]):
        sc["exec_helpers"] = {EXEC_NAME: EXEC_ARGV}
    if h.get("host_status", 200) != 200:
        sc["default_reply"] = {"status": h["host_status"], "reason": {401: "Unauthorized", 403: "Forbidden", 500: "Internal Server Error"}.get(h["host_status"], "Status")}
    if h["status_task"] and not reference:
        sc["status_task_ms"] = 4
    return sc


# ------------------------------------------------------------------------------------------------
# the property text, read in Python (independent of the Coq model)
# ------------------------------------------------------------------------------------------------
def claims_py(who, exe):
    return {"u": who["user"], "g": who["groups"], "p": os.path.basename(exe).encode(), "e": exe.encode(), "el": who["admin"] == 1}


def expect_request(h, c, r, who, exe):
    """(status, relayed, recorded) the property demands for this request"""
    st, relayed, recorded = expect_decision(h, c, r, who, exe)
    if relayed:
        st = h.get("host_status", 200)     # what the host answers is passed through; it never makes or unmakes a denial
    if r.get("big") and relayed:
        # the relay fails AFTER the decision (the chunked body exceeds the limit while it is being received): the client
        # gets 400 and nothing reaches the host (C15) -- but a denial stays a denial: recorded once all the same
        return 400, False, recorded
    return st, relayed, recorded


def expect_decision(h, c, r, who, exe):
    dest = c["dest"]
    if ".." in G.split_url(r["target"])[0]:
        return 404, False, False           # traversal characters in the PATH: refused before authorization (C01)
    if dest == OTHER:
        return 200, True, False
    if dest == SELF:
        return 403, False, True            # requests addressed to the agent's own listener are refused (C03)
    if dest in (WIRESERVER, HOSTGA) and who["admin"] != 1:
        return 403, False, True            # root-only endpoints whatever the rules and the mode (C03)
    doc = r["rules"][ENDPOINT_KEY[dest]]
    if doc is None or G.parse_mode_py(doc["mode"]) == "disabled":
        return 200, True, False            # no rules / disabled: not consulted
    path, query = G.split_url(r["target"])
    allowed, _ = G.spec_decide(doc, claims_py(who, exe), path, query)
    if allowed:
        return 200, True, False
    if G.parse_mode_py(doc["mode"]) == "audit":
        return 200, True, True             # relayed as an allowed request would be, and recorded
    return 403, False, True                # enforce: blocked and recorded


def shown_of(who, exe, cmd, dest):
    ip, port = dest.rsplit(":", 1)
    return (who["user"], ip, int(port), exe, cmd, FORBIDDEN)


def entry_tuple(e):
    return (e["userName"], e["ip"], e["port"], e.get("processFullPath"), e["processCmdLine"], e["responseStatus"])


def count_entries(records):
    out = {}
    for s in records:
        out[s] = out.get(s, 0) + 1
    return out


def space_key(s, client_ip="127.0.0.1"):
    user, ip, port, exe, cmd, st = s
    return " ".join([user, client_ip, ip, str(port), exe, cmd, st])


def merged_by_space_key(records):
    """what the pinned key (fields joined by single spaces) makes of the records: one entry per key,
    showing the first record's fields"""
    first, cnt = {}, {}
    for s in records:
        k = space_key(s)
        first.setdefault(k, s)
        cnt[k] = cnt.get(k, 0) + 1
    return {first[k]: n for k, n in cnt.items()}


def observed_counts(entries):
    out = {}
    for e in entries:
        t = entry_tuple(e)
        out[t] = out.get(t, 0) + e["count"]
    return out, len(entries)


def upstream_index(result):
    """marker -> list of (host, parsed request) seen by the mock hosts"""
    idx = {}
    for host in e2e.MOCKS:
        for upc in e2e.upstream_messages(result, host):
            for m in upc:
                if m is None:
                    continue
                mk = m["header"]("x-marker")
                if mk:
                    idx.setdefault(mk[0], []).append((host, m))
    return idx


def canon_upstream(m):
    """an upstream request without the values that legitimately differ between two runs (date, MAC)"""
    hs = []
    for k, v in m["headers"]:
        kl = k.lower()
        if kl == "x-ms-azure-host-date":
            v = "<date>"
        elif kl == "x-ms-azure-host-authorization":
            v = " ".join((v or "").split(" ")[:2]) + " <sig>"
        hs.append((kl, v))
    return (m["start_line"], tuple(hs), m["body"])


def conservation_check(h, r):
    """burst legs of the runner's summary_burst op: every denial handed to the summary is counted, however many callers
    hand theirs in at the same instant for a key that is not there yet"""
    for sn in r.get("snapshots", []):
        b = sn.get("burst")
        if not b:
            continue
        for name, entries in (("get_all_failed_connection_summary()", (sn.get("summary") or {}).get("failed")),
                              ("status.json failedAuthenticateSummary", (sn.get("status_json") or {}).get("failed"))):
            if entries is None or isinstance(entries, dict):
                continue
            mine = [e for e in entries if str(e.get("userName", "")).startswith("burst-%s-" % sn["label"])]
            total = sum(e["count"] for e in mine)
            if total != b["adds"] or len(mine) != b["keys"]:
                short = sorted((e["userName"], e["count"]) for e in mine if e["count"] != b["threads"])[:5]
                return {"why": "%d denials of %d never-seen callers (%d at the same instant each) were handed to the failed-authorization "
                               "summary; %s shows %d occurrences in %d entries, e.g. %r" % (
                                   b["adds"], b["keys"], b["threads"], name, total, len(mine), short)}
    return None


def property_check(h, r, ref, pool, sep_byte):
    """Evaluate the property on the observed behaviour.  Returns None or a failure dict (why, class)."""
    if h.get("race"):
        return conservation_check(h, r)
    up = upstream_index(r)
    up_ref = upstream_index(ref) if ref is not None else None
    byid = {c.get("id"): c for c in r["connections"]}
    records = []            # shown fields of every denial the property wants recorded since the last clear
    snaps = {s["label"]: s for s in r.get("snapshots", [])}
    for c in h["conns"]:
        who = pool[c["caller"]]
        exe, cmd = resolve(who, r, c)
        if c["clear"]:
            why = compare_summary("before the clear at connection %d" % c["id"], records, snaps.get("before-clear-%d" % c["id"], {}), sep_byte)
            if why:
                return why
            records = []
        resp = byid.get(c["id"], {}).get("responses", [])
        for j, rq in enumerate(c["reqs"]):
            st, relayed, recorded = expect_request(h, c, rq, who, exe)
            got = resp[j].get("status") if j < len(resp) else None
            mk = marker(h, c, j)
            seen = up.get(mk, [])
            what = "%s %s from %s to %s (request %d of connection %d)" % (rq["method"], rq["target"], c["caller"], c["dest"], j, c["id"])
            if got != st:
                return {"why": "%s: client status %s, the property demands %s" % (what, got, st)}
            if relayed and (len(seen) != 1 or seen[0][0] != c["dest"]):
                return {"why": "%s: must be relayed to %s exactly once, the mock hosts saw it %r" % (what, c["dest"], [x[0] for x in seen])}
            if not relayed and seen:
                return {"why": "%s: must not be relayed, but %s received it" % (what, seen[0][0])}
            if relayed and recorded and up_ref is not None:
                # audit mode: relayed exactly as an allowed request would be (reference run: no rules at all)
                rs = up_ref.get(mk, [])
                if len(rs) == 1 and canon_upstream(rs[0][1]) != canon_upstream(seen[0][1]):
                    return {"why": "%s: denied in audit mode but not relayed as an allowed request would be: %r vs allowed %r" % (
                        what, canon_upstream(seen[0][1]), canon_upstream(rs[0][1]))}
            if recorded:
                records.append(shown_of(who, exe, cmd, c["dest"]))
    return compare_summary("at the end of the history", records, {"summary": r["summary"], "status_json": r.get("status_json")}, sep_byte)


def compare_summary(where, records, obs, sep_byte):
    want = count_entries(records)
    sources = [("get_all_failed_connection_summary()", (obs.get("summary") or {}).get("failed"))]
    sj = obs.get("status_json")
    if sj is not None and "error" not in sj:
        # (a read that timed out under load is not a verdict about the summary; run() insists that reads succeed at all)
        sources.append(("status.json failedAuthenticateSummary", sj.get("failed")))
    for name, entries in sources:
        if entries is None or isinstance(entries, dict):
            return {"why": "%s %s: not available (%r)" % (name, where, entries)}
        have, n = observed_counts(entries)
        if have == want and n == len(want):
            continue
        f = {"why": "%s %s shows %r, the denials since the last clear are %r" % (name, where, sorted(have.items()), sorted(want.items()))}
        merged = merged_by_space_key(records)
        if sep_byte == 32 and have == merged and n == len(merged) and merged != want:
            f["class"] = "space_ambiguous_fields"
            f["collision"] = sorted(k for k in want if k not in merged or merged[k] != want[k])
        return f
    return None


# ------------------------------------------------------------------------------------------------
# the Coq model on the same history
# ------------------------------------------------------------------------------------------------
PRELUDE = """
Definition mk_env (ws ga im : option item) : env :=
  {| e_counter_ok := true; e_claims_json_ok := fun _ => true;
     e_ws := ROk (option_map compute ws); e_ga := ROk (option_map compute ga); e_imds := ROk (option_map compute im) |}.
Definition mk_rv (e : env) (cl : claims) (ip port : N) (cmd m path : bytes) (q : option bytes) : reqev :=
  {| rv_env := e;
     rv_conn := {| ci_ctx := {| cx_claims := Some cl; cx_dest := Some (ip, port) |};
                   ci_client_ip := [49; 50; 55; 46; 48; 46; 48; 46; 49]; ci_cmd := cmd |};
     rv_req := {| rq_method := m; rq_uri := origin_uri path q |} |}.
Definition msgs_all (l : list (bool * reqev)) : list msg :=
  flat_map (fun x : bool * reqev => (if fst x then [ClearAll] else []) ++ msgs_of (snd x)) l.
Definition ev (l : list (bool * reqev)) :=
  (map (fun x : bool * reqev => result_codes (handle (rv_env (snd x)) (ci_ctx (rv_conn (snd x))) (rv_req (snd x)))) l,
   map entry_code (snd (publish key_string (arun key_string agent0 (msgs_all l))))).
"""


def ip_n(dest):
    a, b, c, d = [int(x) for x in dest.rsplit(":", 1)[0].split(".")]
    return a + b * 256 + c * 65536 + d * 16777216


def coq_history(h, r, pool, upto=None):
    """the list of (clear-before?, request event) terms; upto = connection id to stop before (exclusive)"""
    items = []
    envs = {}
    defs = []
    for c in h["conns"]:
        if upto is not None and c["id"] >= upto:
            break
        who = pool[c["caller"]]
        exe, cmd = resolve(who, r, c)
        for rq in c["reqs"]:
            rk = json.dumps({k: (None if d is None else G.doc_to_json(d)) for k, d in rq["rules"].items()}, sort_keys=True)
            if rk not in envs:
                envs[rk] = "e%d" % len(envs)
                defs.append("let %s := mk_env %s %s %s in" % (envs[rk], *[
                    copt(None if rq["rules"][k] is None else G.coq_item(rq["rules"][k]), "item") for k in ("wireserver", "hostga", "imds")]))
        ck = "c_" + c["caller"].replace("-", "_") + ("_" + c["stage"] if c.get("stage") else "")
        if ck not in envs:
            envs[ck] = ck
            defs.append("let %s := %s in let m%s := %s in" % (ck, G.coq_claims(claims_py(who, exe)), ck, cb(cmd)))
        cl = ck
        port = int(c["dest"].rsplit(":", 1)[1])
        for j, rq in enumerate(c["reqs"]):
            rk = json.dumps({k: (None if d is None else G.doc_to_json(d)) for k, d in rq["rules"].items()}, sort_keys=True)
            path, _, q = rq["target"].partition("?")
            items.append("(%s, mk_rv %s %s %d %d %s %s %s %s)" % (
                "true" if (c["clear"] and j == 0) else "false", envs[rk], cl, ip_n(c["dest"]), port, "m" + ck, cb(rq["method"]),
                cb(path), copt(cb(q), "bytes") if "?" in rq["target"] else "(@None bytes)"))
    return "%s ev [%s]" % (" ".join(defs), "; ".join(items))


def dec(b):
    return bytes(b).decode("utf-8", "replace")


def model_entries(raw):
    out = {}
    for (user, groups, ip, port, path, cmd, status, count) in raw:
        out[(dec(user), dec(ip), port, dec(path), dec(cmd), dec(status))] = (count, sorted(dec(g) for g in groups))
    return out


def impl_entries(entries):
    out = {}
    for e in entries:
        if str(e.get("userName", "")).startswith("burst-"):
            continue            # the runner's summary_burst op: judged by conservation_check
        out[entry_tuple(e)] = (e["count"], sorted(e.get("userGroups") or []))
    return out


def known_filter_for(ctx, sep_byte):
    listed = [f for f in vplib.known_findings("C11") if f.get("id") == "F8" and f.get("class") == "space_ambiguous_fields"]

    def known(f):
        if listed and sep_byte == 32 and f.get("class") == "space_ambiguous_fields":
            return ("F8 space_ambiguous_fields: denials of different callers whose fields coincide when joined by single spaces "
                    "(executable '<dir>/a b' + command line '5 600' vs executable '<dir>/a' + command line 'b 5 600') are merged "
                    "under one failed-summary entry that shows the first caller's process and command line")
        return None
    return known


def consts_sep():
    txt = open(os.path.join(vplib.COQ, "Generated", "Consts.v")).read()
    import re
    m = re.search(r"Definition summary_key_sep : N := (\d+)\.", txt)
    return int(m.group(1)) if m else -1


def run(ctx):
    vplib.gen_consts(ctx)
    proofs_ok, detail = vplib.check_proofs(ctx)
    ctx.log("proofs:", proofs_ok, detail[:200])
    sep_byte = consts_sep()
    rng = ctx.rng
    procs = Procs(ctx)
    try:
        pool = make_callers(procs)
        nseq, nconc = (140, 60) if ctx.quick else (1050, 450)
        hs = [gen_history(rng, i, pool, False) for i in range(nseq)] + [gen_history(rng, nseq + i, pool, True) for i in range(nconc)]
        # a fixed F8 replay first: two callers, same user and destination, colliding path/command line, both denied
        deny = {"defaultAccess": "deny", "mode": "enforce", "id": "f8", "rules": None}
        f8 = {"idx": 990001, "concurrent": False, "callers": ["root-ab", "root-a"], "rules": {"wireserver": None, "hostga": None, "imds": deny},
              "conns": [{"id": 1, "caller": "root-ab", "dest": IMDS, "reqs": [{"method": "GET", "target": TARGETS[0], "body": b""}] * 2,
                         "rules": {"wireserver": None, "hostga": None, "imds": deny}, "change": None, "clear": False},
                        {"id": 2, "caller": "root-a", "dest": IMDS, "reqs": [{"method": "GET", "target": TARGETS[0], "body": b""}],
                         "rules": {"wireserver": None, "hostga": None, "imds": deny}, "change": None, "clear": False}],
              "key": False, "status_task": True}
        none3 = {"wireserver": None, "hostga": None, "imds": None}
        get0 = {"method": "GET", "target": TARGETS[0], "body": b""}

        def fixed(idx, conns, concurrent=False, rules=None, **kw):
            rules = rules or none3
            for c in conns:
                c.setdefault("rules", rules)
                c.setdefault("change", None)
                c.setdefault("clear", False)
            return dict({"idx": idx, "concurrent": concurrent, "callers": sorted({c["caller"] for c in conns}), "rules": rules,
                         "conns": conns, "key": False, "status_task": True}, **kw)
        # two callers whose command lines share a 300-character prefix (same user, executable, destination), both refused
        longs = fixed(990002, [{"id": 1, "caller": "nobody-longA", "dest": WIRESERVER, "reqs": [get0] * 2},
                               {"id": 2, "caller": "nobody-longB", "dest": WIRESERVER, "reqs": [get0]}])
        # the mode flips audit -> enforce -> disabled -> enforce while one keep-alive connection stays open
        def imds(mode):
            return {"wireserver": None, "hostga": None, "imds": {"defaultAccess": "deny", "mode": mode, "id": "m", "rules": None}}
        flips = fixed(990003, [{"id": 1, "caller": "root-helper", "dest": IMDS, "rules": imds("audit"), "reqs": [
            dict(get0), dict(get0, rules=imds("enforce"), change="imds"), dict(get0, rules=imds("enforce")),
            dict(get0, rules=imds("disabled"), change="imds"), dict(get0, rules=imds("enforce"), change="imds"),
            dict(get0, rules=imds("audit"), change="imds")]}], rules=imds("audit"))
        # bursts: many denials at the same instant, every one of them must be counted
        nburst = 320
        burst_e = fixed(990004, [{"id": i + 1, "caller": "root-helper", "dest": IMDS, "reqs": [get0]} for i in range(nburst)],
                        concurrent=True, rules=imds("enforce"), burst=True)
        burst_a = fixed(990005, [{"id": i + 1, "caller": "root-helper", "dest": IMDS, "reqs": [get0] * 2} for i in range(nburst // 2)],
                        concurrent=True, rules=imds("audit"), burst=True)
        # more distinct denied callers than any plausible "top N" cut of the published summary: status.json shows them all
        crowd = fixed(990006, [{"id": i + 1, "caller": n, "dest": WIRESERVER if i % 2 else HOSTGA, "reqs": [get0] * (1 + i % 3)}
                               for i, n in enumerate(CROWD)])
        # a denied process exec()s another program and is denied again: each denial under the image at ITS connect
        execs = fixed(990007, [{"id": 1, "caller": "root-exec", "dest": IMDS, "reqs": [get0] * 2},
                               {"id": 2, "caller": "root-exec", "dest": IMDS, "reqs": [get0] * 3, "exec_before": True, "stage": "after"},
                               {"id": 3, "caller": "root-exec", "dest": IMDS, "reqs": [get0], "stage": "after"}], rules=imds("enforce"))
        # denials whose relay fails after the decision (over-limit chunked body), in audit and in enforce mode, and allowed ones
        bigp = {"method": "POST", "target": TARGETS[0], "body": b"", "big": True}
        bigs = fixed(990008, [{"id": 1, "caller": "root-helper", "dest": IMDS, "rules": imds("audit"), "reqs": [get0, dict(bigp)]},
                              {"id": 2, "caller": "root-helper", "dest": IMDS, "rules": imds("audit"), "reqs": [dict(bigp)]},
                              {"id": 3, "caller": "root-helper", "dest": IMDS, "rules": imds("enforce"), "reqs": [dict(bigp, rules=imds("enforce"), change="imds")]},
                              {"id": 4, "caller": "root-helper", "dest": WIRESERVER, "rules": imds("enforce"), "reqs": [dict(bigp)]},
                              {"id": 5, "caller": "nobody-helper", "dest": WIRESERVER, "rules": imds("enforce"), "reqs": [dict(bigp)]}],
                     rules=imds("audit"))
        host403 = fixed(990009, [{"id": 1, "caller": "root-helper", "dest": IMDS, "reqs": [get0] * 3},
                                 {"id": 2, "caller": "root-helper", "dest": WIRESERVER, "reqs": [get0] * 2},
                                 {"id": 3, "caller": "root-self", "dest": OTHER, "reqs": [get0]}], rules=imds("audit"), host_status=403)
        dotq = {"method": "GET", "target": TARGETS[7], "body": b""}
        dots = fixed(990010, [{"id": 1, "caller": "root-helper", "dest": IMDS, "rules": imds("enforce"), "reqs": [dict(dotq), dict(dotq, target=TARGETS[9]), get0]},
                              {"id": 2, "caller": "root-helper", "dest": IMDS, "reqs": [dict(dotq, rules=imds("audit"), change="imds"), dict(dotq, target=TARGETS[10], rules=imds("audit"))]}],
                     rules=imds("enforce"))
        # conservation under simultaneous FIRST denials of never-seen callers (8 x 600 and, after a clear, 16 x 400 fresh keys), on the real actor and the real status task
        race = fixed(990011, [{"id": 1, "caller": "root-helper", "dest": OTHER, "reqs": [get0],
                               "ops": [{"op": "summary_burst", "label": "a", "threads": 8, "keys": 600}, {"op": "clear_summary"},
                                       {"op": "summary_burst", "label": "b", "threads": 16, "keys": 400}]}], race=True)
        hs = [finalize(h) for h in [f8, longs, flips, burst_e, burst_a, crowd, execs, bigs, host403, dots, race] + hs]

        def run_batch(batch, env=None, shards=None):
            scs, refmap = [], {}
            for h in batch:
                sc = to_scenario(h, pool)
                sc.setdefault("timeout_ms", 60000)            # generous: a slow machine is not a verdict
                sc.setdefault("scenario_timeout_ms", 300000)
                sc.setdefault("drain_timeout_ms", 20000)
                if h.get("burst"):
                    sc.update({"timeout_ms": 120000, "scenario_timeout_ms": 400000, "drain_timeout_ms": 60000})
                scs.append(sc)
            for i, h in enumerate(batch):
                if not h.get("burst") and any(d is not None and G.parse_mode_py(d["mode"]) == "audit" for d in all_rule_docs(h)):
                    refmap[i] = len(scs)
                    scs.append(to_scenario(h, pool, reference=True))
            res = e2e.run_scenarios(ctx, scs, timeout=2400, shards=shards, env=env)
            return scs, res[:len(batch)], {i: res[k] for i, k in refmap.items()}

        scs, results, refs = run_batch(hs, shards=4 if ctx.quick else 8)

        def inconclusive(r):
            """the runner itself gave up (scenario / response timeout, driver error): not an observation of the agent"""
            return (not r.get("ok")) or any(x.get("timeout") for c in r.get("connections", []) for x in c.get("responses", [])) \
                or any(c.get("connect_error") for c in r.get("connections", []))
        retried = 0
        for i, h in enumerate(hs):
            if inconclusive(results[i]) and not results[i].get("panics"):
                _, rr, rf = run_batch([h], shards=1)           # once more, alone
                results[i] = rr[0]
                if 0 in rf:
                    refs[i] = rf[0]
                retried += 1
        if retried:
            ctx.notes.append("%d histories were run a second time because the runner timed out on the first attempt" % retried)
        # the histories that exist for the sake of status.json are run again, alone, when the file could not be read (load)
        for i, h in enumerate(hs):
            for _ in range(2):
                sj = results[i].get("status_json")
                if h["idx"] in (990006,) and (sj is None or "error" in sj):
                    results[i] = run_batch([h], shards=1)[1][0]
        # the same bursts and a few concurrent histories again on a current-thread runtime (E2E_THREADS=0)
        import copy
        again = []
        for h in [burst_e, burst_a] + [h for h in hs if h["concurrent"] and not h.get("burst")][:6]:
            h2 = copy.deepcopy(h)
            h2["idx"] = h["idx"] + 5000000
            h2["runtime"] = "current_thread"
            again.append(h2)
        scs2, results2, refs2 = run_batch(again, env={"E2E_THREADS": "0"}, shards=2)
        for i, r in refs2.items():
            refs[len(hs) + i] = r
        hs, scs, results = hs + again, scs + scs2[:len(again)], results + results2
        ctx.log("implementation: %d histories (+%d reference runs without rules)" % (len(hs), len(refs)))

        exprs, owners = [], []
        for i, (h, r) in enumerate(zip(hs, results)):
            exprs.append(coq_history(h, r, pool))
            owners.append((i, None))
            for c in h["conns"]:
                if c["clear"]:
                    exprs.append(coq_history(h, r, pool, upto=c["id"]))
                    owners.append((i, c["id"]))
        model = vplib.coq_eval(ctx, "From GPA Require Import Summary.\nOpen Scope N_scope.", exprs, prelude=PRELUDE, shard=25, timeout=1200)
        by_owner = {o: m for o, m in zip(owners, model)}

        disagreements, failures = [], []
        # ---- the burst (conservation) legs against the model: the actor fed the same adds, in ANY order (theorem
        # C11_actor_conserves_every_interleaving), shows per key exactly what the real actor showed
        bexprs, bown = [], []
        for i, (h, r) in enumerate(zip(hs, results)):
            if h.get("race"):
                for sn in r.get("snapshots", []):
                    b = sn.get("burst")
                    if b:
                        bexprs.append("burst_model %s %d %d" % (cb("burst-%s-" % sn["label"]), b["keys"], b["threads"]))
                        bown.append((i, sn))
        if bexprs:
            bprelude = PRELUDE + """
Definition burst_model (prefix : bytes) (keys threads : nat) :=
  let mk := fun k : nat => {| sm_user := prefix ++ dec (N.of_nat k); sm_groups := [[103]]; sm_client_ip := [49; 50; 55; 46; 48; 46; 48; 46; 49];
                              sm_ip := [49; 54; 57; 46; 50; 53; 52; 46; 49; 54; 57; 46; 50; 53; 52]; sm_port := 80;
                              sm_path := [47; 98; 117; 114; 115; 116; 47; 101; 120; 101]; sm_cmd := [101; 120; 101; 32; 45; 45; 98; 117; 114; 115; 116];
                              sm_status := status_text 403 |} in
  map entry_code (snd (publish key_string (arun key_string agent0
     (flat_map (fun k => repeat (AddFailed (mk k)) threads) (seq 0 keys))))).
"""
            bmodel = vplib.coq_eval(ctx, "From GPA Require Import Summary.\nOpen Scope N_scope.", bexprs, prelude=bprelude, shard=1, name="burst")
            for (i, sn), ents in zip(bown, bmodel):
                me = model_entries(ents)
                ie = {}
                for e in (sn.get("summary") or {}).get("failed") or []:
                    if str(e.get("userName", "")).startswith("burst-%s-" % sn["label"]):
                        ie[entry_tuple(e)] = (e["count"], sorted(e.get("userGroups") or []))
                if me != ie:
                    diff = sorted(k for k in set(me) | set(ie) if me.get(k) != ie.get(k))[:5]
                    disagreements.append({"case": {"burst": sn["burst"], "label": sn["label"]},
                                          "model": {k[0]: me.get(k) for k in diff}, "impl": {k[0]: ie.get(k) for k in diff}})
        stats = {"requests": 0, "status_403": 0, "relayed_recorded(audit)": 0, "relayed": 0, "entries": 0, "histories_with_clear": 0,
                 "histories_with_rule_change": 0, "status_json_reads": 0, "f8_histories": 0}
        for i, (h, r) in enumerate(zip(hs, results)):
            case = {"history": {k: v for k, v in h.items() if k != "conns"}, "connections": len(h["conns"]), "name": r.get("name")}
            if not r.get("ok") or r.get("panics") or any(c.get("connect_error") or c.get("error") for c in r["connections"]):
                disagreements.append({"case": case, "model": "runs", "impl": {"error": r.get("error"), "panics": r.get("panics")}})
                continue
            ref = refs.get(i)
            f = property_check(h, r, ref, pool, sep_byte)
            if f:
                f = dict(f)
                f["case"] = dict(case, replay=e2e.jsonable(scs[i]))
                f["impl"] = {"statuses": e2e.statuses(r), "failed_summary": r["summary"]["failed"], "status_json": r.get("status_json")}
                failures.append(f)
                if f.get("class"):
                    stats["f8_histories"] += 1
            # ---- model vs implementation
            codes, entries = by_owner[(i, None)]
            flat = [(c, j) for c in h["conns"] for j in range(len(c["reqs"]))]
            byid = {c.get("id"): c for c in r["connections"]}
            up = upstream_index(r)
            for (c, j), (oc0, oc1, fx) in zip(flat, codes):
                oc = (oc0, oc1)
                resp = byid.get(c["id"], {}).get("responses", [])
                got = resp[j].get("status") if j < len(resp) else None
                relayed_m = oc[0] == 2
                want = h.get("host_status", 200) if relayed_m else oc[1]
                if relayed_m and c["reqs"][j].get("big"):
                    relayed_m, want = False, 400          # [handle] enters the forward step; the body limit (C15) ends it
                seen = up.get(marker(h, c, j), [])
                stats["requests"] += 1
                stats["status_403"] += got == 403
                stats["relayed"] += bool(seen)
                stats["relayed_recorded(audit)"] += bool(seen) and any(k == 1 for k, _ in fx)
                if got != want or bool(seen) != relayed_m:
                    disagreements.append({"case": dict(case, request=[c["id"], j, c["reqs"][j]["target"], c["caller"], c["dest"]]),
                                          "model": {"outcome": oc, "effects": fx}, "impl": {"status": got, "relayed_to": [x[0] for x in seen]}})
            me, ie = model_entries(entries), impl_entries(r["summary"]["failed"])
            stats["entries"] += len(ie)
            if me != ie:
                disagreements.append({"case": case, "model": {"failed_summary": sorted(me.items())}, "impl": sorted(ie.items())})
            sj = r.get("status_json")
            if h["idx"] == 990006 and (sj is None or "error" in sj):
                disagreements.append({"case": case, "model": "status.json readable for the 110-caller history", "impl": sj})
            if sj is not None and "error" not in sj:
                stats["status_json_reads"] += 1
                if impl_entries(sj["failed"]) != me:
                    disagreements.append({"case": case, "model": {"published": sorted(me.items())}, "impl": {"status_json": sj["failed"]}})
            snaps = {s["label"]: s for s in r.get("snapshots", [])}
            for c in h["conns"]:
                if c["clear"]:
                    stats["histories_with_clear"] += 1
                    _, ents = by_owner[(i, c["id"])]
                    sn = snaps.get("before-clear-%d" % c["id"], {})
                    if model_entries(ents) != impl_entries((sn.get("summary") or {}).get("failed") or []):
                        disagreements.append({"case": dict(case, before_clear=c["id"]), "model": sorted(model_entries(ents).items()),
                                              "impl": (sn.get("summary") or {}).get("failed")})
                if c["change"]:
                    stats["histories_with_rule_change"] += 1

        wanted_reads = sum(1 for h in hs if h["status_task"])
        if wanted_reads and stats["status_json_reads"] * 2 < wanted_reads:
            disagreements.append({"case": {"status_task_histories": wanted_reads}, "model": "status.json is rewritten every 4 ms",
                                  "impl": {"successful_reads": stats["status_json_reads"]}})
        total = len(hs)
        ctx.coverage.update({
            "evaluations": stats["requests"],
            "distinct_nontrivial": len({(c["caller"], c["dest"], rq["target"], rq["method"], json.dumps({k: (None if d is None else G.doc_to_json(d)) for k, d in rq["rules"].items()}, sort_keys=True))
                                        for h in hs for c in h["conns"] for rq in c["reqs"] if c["dest"] in ENDPOINT_KEY and rq["rules"][ENDPOINT_KEY[c["dest"]]] is not None}),
            "traces_validated_against_impl": total - len({json.dumps(d["case"].get("name"), sort_keys=True) for d in disagreements}),
            "rule": "histories of 5-60 requests on 1-8 connections (sequential, with rule changes and summary clears between connections) or 4 "
                    "concurrent keep-alive connections, 1-4 callers out of 10 (plus one fixed history with 110 distinct denied callers) (root/nobody/no-such-user x driver/sleep/custom executables, two of "
                    "them colliding under a space-joined key), destinations WireServer/HostGAPlugin/IMDS/other/self, per-endpoint rule "
                    "documents (mode enforce/audit/disabled in several spellings, default allow/deny, optional privileges/roles/identities) or no "
                    "rules; evaluations = requests; non-trivial = distinct (caller, destination, request, rule documents) with rules in force "
                    "on the destination; every audit-mode history is also run without rules as the 'allowed' reference",
            "exhaustive": False,
            "samples": [{"history": hs[1]["idx"], "callers": hs[1]["callers"], "statuses": e2e.statuses(results[1]),
                         "failed_summary": results[1]["summary"]["failed"][:3]},
                        {"f8_replay": {"callers": f8["callers"], "failed_summary": results[0]["summary"]["failed"]}}],
            "input_distribution": dict(stats, histories=total, sequential=nseq + 3, concurrent=nconc + 2 + len(again), reference_runs=len(refs),
                                       current_thread_runtime_histories=len(again), burst_connections=nburst,
                                       key_separator_in_code=sep_byte),
        })
        ctx.assumptions += [
            "callers' records are injected through hook H1 (redirector::verif_hooks); the claims are derived by the real code from /proc and the user database for real processes started by the check",
            "status.json is read after two complete rewrites by a real ProxyAgentStatusTask (4 ms interval), so its content was computed after the last request",
            "userGroups are shown in an entry but are not part of the key; they are a function of the user name (named assumption groups_of_user)",
            "concurrent histories do not contain the two colliding callers together: which of them arrives first would be schedule-dependent (the merge itself is finding F8)",
        ]
        verdict(ctx, proofs_ok, detail, disagreements, failures, known_filter=known_filter_for(ctx, sep_byte),
                corr_name="Server.handle + Summary (key, actor maps, publish) vs the real listener, actor and status task end to end")
    finally:
        procs.close()
