"""C05 -- Proxy-owned headers cannot be spoofed or duplicated by the client.
Model: coq/Model/Headers.v (on Canon.v); theorems: coq/Props/C05.v; implementation: the real ProxyServer run
end to end by tools/e2e.py against recording mock hosts, attribution injected through hook H1.

Per relayed request three opinions are compared:
  (a) the implementation: the header lines of the raw request the mock host received;
  (b) the Coq model: Headers.c05_case (of_wire + the two inserts + relay/sign) evaluated by vm_compute on the
      same header lines, attribution bit and key state, with `now` := the date value the proxy produced; the
      complete ordered header list must agree, and when the model says "signed" the MAC on the wire must be
      HMAC-SHA256(latched key, the model's string-to-sign) -- recomputed here with Python's hmac;
  (c) the property text as a Python predicate over (a) alone (prop_c05).
"""
import hashlib
import hmac
import os
import re
import sys
import time

sys.path.insert(0, os.path.normpath(os.path.join(os.path.dirname(os.path.abspath(__file__)), "..")))
import e2e  # noqa: E402
import vplib  # noqa: E402
from vplib import cb  # noqa: E402
from checks.common import verdict  # noqa: E402
from checks import relay_common as rc  # noqa: E402
from checks.relay_common import CLAIMS, DATE, AUTH, OWNED, SCHEME  # noqa: E402

HEX64 = re.compile(r"^[0-9a-f]{64}$")


# ------------------------------------------------------------------------------------------
# the property, from its text, on what the host received
# ------------------------------------------------------------------------------------------
def prop_c05(case, upstream_headers, now_t, answered_t=None):
    """case: what the client sent and who it is; upstream_headers: [(lower name, value)] the host received.
    Returns None or a description of the violation."""
    claims = rc.values(upstream_headers, CLAIMS)
    want = rc.claims_text(case["is_admin"] == 1)
    if len(claims) != 1:
        return "the host received %d caller-claims headers (%r), not exactly one" % (len(claims), claims)
    if claims[0] != want:
        return "the claims header says %r but the attributed caller is %selevated (expected %r)" % (
            claims[0], "" if case["is_admin"] == 1 else "not ", want)
    dates = rc.values(upstream_headers, DATE)
    if len(dates) != 1:
        return "the host received %d date headers (%r), not exactly one" % (len(dates), dates)
    t = rc.parse_rfc1123(dates[0])
    sent_dates = [rc.trim_ows(v) for k, v in case["headers"] if k.lower() == DATE]
    if t is None or abs(t - now_t) > 86400:
        return "the date header %r is not the proxy's current time%s" % (
            dates[0], " (it is a value the client supplied)" if dates[0] in sent_dates else "")
    if dates[0] in sent_dates:
        return "the date header %r is a value the client supplied" % dates[0]
    if answered_t is not None and abs(t - answered_t) > 3:
        # the Date header hyper's server put on the proxy's answer to this very request: the same clock, read within
        # milliseconds of the request
        return "the date header %r is not the proxy's current time: the proxy answered this request at %s" % (
            dates[0], rc.rfc1123(answered_t))
    signs = case["key"] is not None and case["key_is_hex"] and not rc.is_exempt(case["method"], case["target"])
    if signs:
        auths = rc.values(upstream_headers, AUTH)
        sent_auth = [rc.trim_ows(v) for k, v in case["headers"] if k.lower() == AUTH]
        if len(auths) != 1:
            return "signed request: the host received %d authorization headers (%r), not exactly one" % (len(auths), auths)
        if auths[0] in sent_auth:
            return "signed request: the client-supplied authorization value %r reached the host" % auths[0]
        parts = auths[0].split(" ")
        if len(parts) != 3 or parts[0] != SCHEME or parts[1] != case["key"]["guid"] or not HEX64.match(parts[2]):
            return "signed request: authorization value %r is not '%s <latched key id> <hex mac>'" % (auths[0], SCHEME)
    return None


# ------------------------------------------------------------------------------------------
# generator
# ------------------------------------------------------------------------------------------
TARGETS = [("GET", "/metadata/instance?api-version=2021-02-01"), ("GET", "/machine?comp=goalstate"), ("GET", "/"),
           ("GET", "/metadata/identity/oauth2/token?resource=https%3A%2F%2Fvault.azure.net&api-version=2018-02-01"),
           ("POST", "/machine?comp=roleProperties"), ("DELETE", "/x/y"), ("GET", "/vmAgentLog"),
           ("PUT", "/vmAgentLog/"), ("POST", "/machine/?comp=telemetrydata&x=1")]
EXEMPT_TARGETS = [("PUT", "/vmAgentLog"), ("PUT", "/VMAGENTLOG"), ("PUT", "/vmagentlog"),
                  ("POST", "/machine/?comp=telemetrydata"), ("POST", "/machine/?comp=TelemetryData"),
                  ("POST", "/MACHINE/?COMP=TELEMETRYDATA")]
OTHER_HEADERS = [("accept", "*/*"), ("x-ms-version", "2012-11-30"), ("Metadata", "true"), ("x-dup", "1"), ("X-Dup", "2"),
                 ("x-dup", "3"), (CLAIMS + "2", '{ "isRoot": "true"}'), ("x-ms-azure-host-claim", '{ "isRoot": "true"}'),
                 (DATE + "-x", "Thu, 01 Jan 1970 00:00:00 GMT"), ("x-ms-azure-host", "1"), ("authorization", "Bearer abc.def"),
                 ("x-ms-azure-host-authorizatio", "value"), ("user-agent", "probe/1.0"), ("x-empty", ""),
                 ("x-ms-azure-time_tick", "12345"), ("cookie", "a=b; c=d")]


def gen_value(rng, name, now_t, guid):
    if name == CLAIMS:
        return rng.choice(['{ "isRoot": "true"}', '{ "isRoot": "true"}', '{ "isRoot": "false"}', '{"isRoot":"true"}',
                           '{ "isRoot": "true"}, { "isRoot": "true"}', "", "true", '{ "isRoot": "TRUE"}',
                           '  { "isRoot": "true"}  ', '{ "isRoot": "true", "userName": "root"}'])
    if name == DATE:
        return rng.choice([rc.rfc1123(now_t - 400 * 86400), rc.rfc1123(now_t + 400 * 86400), rc.rfc1123(now_t + 7200),
                           rc.rfc1123(now_t - 7200), "Thu, 01 Jan 1970 00:00:00 GMT", "0", "", "now",
                           " " + rc.rfc1123(now_t + 3 * 86400) + "\t"])
    mac = "%064x" % rng.getrandbits(256)
    return rng.choice(["%s %s %s" % (SCHEME, guid, mac), "%s %s %s" % (SCHEME, guid, mac),
                       "%s %s %s" % (SCHEME, "00000000-0000-0000-0000-000000000000", mac), "value", SCHEME, "",
                       "%s %s %s" % (SCHEME, guid, "0" * 64)])


HOP_NAMES = ["Connection", "Keep-Alive", "TE", "Trailer", "Upgrade", "Proxy-Connection"]
HOP_FILLERS = {"Connection": ["keep-alive", "Keep-Alive", "x-foo", "TE"], "Keep-Alive": ["timeout=5", "max=100"], "TE": ["trailers", "deflate;q=0.5"],
               "Trailer": ["x-checksum", "expires"], "Upgrade": ["h2c", "websocket"], "Proxy-Connection": ["keep-alive"]}


def gen_hop_headers(rng):
    """hop-by-hop style client headers whose token lists NAME the proxy-owned headers (RFC 9110 7.6.1: a proxy that honoured them
    after inserting its own headers would strip those again)"""
    out = []
    for name in rng.sample(HOP_NAMES, rng.choice([1, 1, 2, 3])):
        toks = [rc.rand_case(rng, n) if rng.random() < 0.6 else n for n in rng.sample(list(OWNED), rng.randint(1, 3))]
        toks += rng.sample(HOP_FILLERS[name], rng.randint(0, len(HOP_FILLERS[name])))
        rng.shuffle(toks)
        out.append((name if rng.random() < 0.5 else rc.rand_case(rng, name), rng.choice([", ", ",", " , "]).join(toks)))
    return out


def gen_case(rng, now_t, key, tag, hop=False):
    guid = key["guid"] if key else "11111111-2222-3333-4444-555555555555"
    method, target = rng.choice(EXEMPT_TARGETS) if rng.random() < 0.18 else rng.choice(TARGETS)
    headers = []
    for name in OWNED:
        for _ in range(rng.choice([0, 0, 1, 1, 1, 2, 2, 3])):
            spelled = name if rng.random() < 0.25 else rc.rand_case(rng, name)
            headers.append((spelled, gen_value(rng, name, now_t, guid)))
    for _ in range(rng.randint(0, 4)):
        headers.append(rng.choice(OTHER_HEADERS))
    if hop:
        headers += gen_hop_headers(rng)
    rng.shuffle(headers)
    headers.insert(rng.randint(0, len(headers)), ("x-tag", tag))
    who = rng.random()
    if who < 0.45:
        uid, is_admin = rng.choice([(0, 1), (0, 1), (e2e.NOBODY_UID, 1)])
        dest = rng.choice([e2e.WIRESERVER, e2e.HOSTGA, e2e.IMDS, e2e.OTHER])
    else:
        uid, is_admin = rng.choice([(e2e.NOBODY_UID, 0), (e2e.NOBODY_UID, 0), (0, 0), (e2e.NOBODY_UID, 2), (0, -1)])
        dest = rng.choice([e2e.IMDS, e2e.IMDS, e2e.OTHER])
    body = b""
    if method in ("PUT", "POST"):
        body = rng.choice([b"", b"<log/>", b"{\"a\": 1}"])
    trailers = None
    if rng.random() < 0.08:
        trailers = [(n if rng.random() < 0.4 else rc.rand_case(rng, n), gen_value(rng, n, now_t, guid) or "x")
                    for n in rng.sample(list(OWNED), rng.randint(1, 3))] + ([("x-checksum", "abc")] if rng.random() < 0.5 else [])
        if rng.random() < 0.7:
            headers.append(("Trailer", ", ".join(k for k, _ in trailers)))
        body = rng.choice([b"", b"<log/>", b"0123456789" * 40])
    return {"tag": tag, "method": method, "target": target, "headers": headers, "uid": uid, "is_admin": is_admin, "hop": hop,
            "trailers": trailers,
            "after_close": False, "dest": dest, "body": body, "key": key, "key_is_hex": bool(key) and re.fullmatch(r"([0-9a-fA-F]{2})*", key["key"]) is not None}


def gen_key(rng):
    r = rng.random()
    if r < 0.4:
        return None
    guid = "%08x-aaaa-bbbb-cccc-%012x" % (rng.getrandbits(32), rng.getrandbits(48))
    if r < 0.93:
        return {"guid": guid, "key": "%064x" % rng.getrandbits(256)}
    return {"guid": guid, "key": "not-hex-" + "z" * 8}        # compute_signature fails: the request goes out unsigned


def prop_c05_fresh(prev_host_date, host_date, prev_answered_t, answered_t):
    """two consecutive requests of one keep-alive connection: when the proxy answered them >= 2 s apart, the date it stamped on the
    second must be later than the one on the first ("the date is the proxy's current time", not the connection's)"""
    a, b = rc.parse_rfc1123(prev_host_date), rc.parse_rfc1123(host_date)
    if None in (a, b, prev_answered_t, answered_t) or answered_t - prev_answered_t < 2:
        return None
    if b <= a:
        return ("two requests of one keep-alive connection answered %d s apart (%s, %s) reached the host with the dates %r and %r: "
                "the second is not the proxy's current time" % (answered_t - prev_answered_t, rc.rfc1123(prev_answered_t),
                                                                 rc.rfc1123(answered_t), prev_host_date, host_date))
    return None


def answered_at(results, c):
    try:
        raw = results[c["scenario"]]["connections"][c["conn"]]["responses"][c["req"]]["raw"]
    except (IndexError, KeyError, TypeError):
        return None
    m = e2e.parse_http(raw)
    d = m["header"]("date") if m else []
    return rc.parse_rfc1123(d[0]) if len(d) == 1 else None


def by_name(headers):
    d = {}
    for k, v in headers:
        d.setdefault(k, []).append(v)
    return d


def minute_leg(ctx, rng, now_t):
    """THOROUGH ONLY (about 62 s): date freshness across a minute boundary.  Three driver processes, each on a current-thread runtime
    (E2E_THREADS=0: one thread serves every request), each with ONE keep-alive connection: request, 1.2 s, request, then 59.7 / 60.0 /
    60.3 s of silence, request.  A date cached under the second-OF-MINUTE (or anything else that survives a whole minute) shows as a
    date one minute older than the Date header of the proxy's own answer.  Returns the failures."""
    scs, cs = [], []
    for k, gap in enumerate((59700, 60000, 60300)):
        xs = [gen_case(rng, now_t, None, "m%d-%d" % (k, i)) for i in range(3)]
        for i, c in enumerate(xs):
            c.update({"scenario": k, "conn": 0, "req": i, "uid": 0, "is_admin": 1, "dest": e2e.IMDS, "trailers": None})
            if i == 2 and rng.random() < 0.5:
                c["method"], c["target"] = rng.choice(EXEMPT_TARGETS)        # the exempt branch stamps a date too
        reqs = [e2e.req(case_request(xs[0]), ops_after=[{"op": "sleep_ms", "ms": 1200}]),
                e2e.req(case_request(xs[1]), ops_after=[{"op": "sleep_ms", "ms": gap}]), e2e.req(case_request(xs[2]), timeout_ms=30000)]
        scs.append(e2e.scenario("c05-minute-%d" % k, [e2e.conn(reqs, audit=e2e.audit(e2e.IMDS, uid=0), timeout_ms=30000)],
                                scenario_timeout_ms=200000))
        cs.append(xs)
    results = e2e.run_scenarios(ctx, scs, timeout=600, shards=3, env={"E2E_THREADS": "0"})
    failures = []
    for k, (r, xs) in enumerate(zip(results, cs)):
        got = {(m["header"]("x-tag") or [None])[0]: m for m in rc.relayed_requests(r, e2e.IMDS)} if r.get("ok") else {}
        for c in xs:
            m = got.get(c["tag"])
            if m is None:
                failures.append({"case": {"scenario": e2e.jsonable(scs[k]), "tag": c["tag"]}, "impl": e2e.statuses(r),
                                 "why": "minute-boundary leg: request %s was not relayed" % c["tag"]})
                continue
            why = prop_c05(c, rc.hdr_list(m), now_t, answered_at(results, c))
            if why:
                failures.append({"case": {"scenario": e2e.jsonable(scs[k]), "tag": c["tag"], "env": {"E2E_THREADS": "0"}},
                                 "why": "minute-boundary leg (requests 60 s apart on one thread): " + why, "impl": rc.hdr_list(m)})
    return failures


def case_request(c):
    if c.get("trailers") is not None:
        # a chunked request whose TRAILER section (after the last chunk) carries fields under the proxy-owned names
        raw = e2e.http_request(c["method"], c["target"], c["headers"] + [("Transfer-Encoding", "chunked")], body=c["body"],
                               chunked=[max(1, len(c["body"]) // 2 + 1)])
        assert raw.endswith(b"0\r\n\r\n")
        return raw[:-2] + "".join("%s: %s\r\n" % kv for kv in c["trailers"]).encode("latin-1") + b"\r\n"
    return e2e.http_request(c["method"], c["target"], c["headers"], body=c["body"])


def trailer_fields(raw):
    """[(lower name, value)] of the trailer section of a raw chunked HTTP/1.1 message (empty for any other message)"""
    he = raw.find(b"\r\n\r\n")
    if he < 0 or b"chunked" not in raw[:he].lower():
        return []
    pos = he + 4
    while True:
        le = raw.find(b"\r\n", pos)
        if le < 0:
            return []
        try:
            size = int(raw[pos:le].split(b";")[0].strip(), 16)
        except ValueError:
            return []
        pos = le + 2
        if size == 0:
            break
        pos += size + 2
    out = []
    for line in raw[pos:].split(b"\r\n"):
        if not line:
            break
        k, _, v = line.decode("latin-1").partition(":")
        out.append((k.strip().lower(), v.strip()))
    return out


# ------------------------------------------------------------------------------------------
def run(ctx):
    broken = rc.gen_consts_or_search(ctx)
    proofs_ok, detail = vplib.check_proofs(ctx)
    if broken:
        proofs_ok, detail = False, broken
    ctx.log("proofs:", proofs_ok, detail[:200])
    rng = ctx.rng
    now_t = time.time()
    n_scen = 100 if ctx.quick else 1700
    per = 6
    cases, scenarios = [], []
    for s in range(n_scen):
        key = gen_key(rng)
        conns, replies = [], {}
        for i in range(per):
            c = gen_case(rng, now_t, key, "t%d-%d" % (s, i), hop=rng.random() < 0.2)
            c["scenario"], c["conn"], c["req"] = s, i, 0
            cases.append(c)
            reqs = [case_request(c)]
            if c["trailers"] is None and rng.random() < 0.12:     # (hyper's server closes a connection after a request with trailers)
                # the host closes its side of the forwarding connection after answering; the client then sends ANOTHER request
                # with spoofed owned headers on the same keep-alive connection (on the code as it is: 502/503, nothing relayed;
                # a proxy that reconnects and resends must resend what it signed)
                replies.setdefault(c["dest"], []).append({"match": "x-tag: %s\r\n" % c["tag"], "close": True})
                c2 = gen_case(rng, now_t, key, "t%d-%d-b" % (s, i), hop=rng.random() < 0.2)
                if rng.random() < 0.8:
                    c2["method"], c2["target"] = rng.choice(TARGETS[:5])
                    c2["body"] = b"" if c2["method"] == "GET" else c2["body"]
                if not any(k.lower() == AUTH for k, _ in c2["headers"]):
                    c2["headers"].append((rc.rand_case(rng, AUTH), gen_value(rng, AUTH, now_t, key["guid"] if key else "g")))
                c2.update({"uid": c["uid"], "is_admin": c["is_admin"], "dest": c["dest"], "scenario": s, "conn": i, "req": 1, "after_close": True})
                cases.append(c2)
                reqs = [e2e.req(reqs[0], ops_after=[{"op": "sleep_ms", "ms": 40}]), case_request(c2)]
            conns.append(e2e.conn(reqs, audit=e2e.audit(c["dest"], uid=c["uid"], is_admin=c["is_admin"])))
        scenarios.append(e2e.scenario("c05-%d" % s, conns, key=key, replies=replies))
    # keep-alive connections whose requests are separated by a pause: every request must carry the time of THAT request
    for s in range(n_scen, n_scen + (2 if ctx.quick else 8)):
        key = gen_key(rng)
        conns = []
        for i in range(4):
            a = gen_case(rng, now_t, key, "t%d-%d" % (s, i))
            b = gen_case(rng, now_t, key, "t%d-%d-b" % (s, i), hop=rng.random() < 0.3)
            a.update({"scenario": s, "conn": i, "req": 0, "trailers": None})
            b.update({"scenario": s, "conn": i, "req": 1, "uid": a["uid"], "is_admin": a["is_admin"], "dest": a["dest"], "after": len(cases)})
            cases += [a, b]
            conns.append(e2e.conn([e2e.req(case_request(a), ops_after=[{"op": "sleep_ms", "ms": rng.choice([2300, 2600, 3100])}]), case_request(b)],
                                  audit=e2e.audit(a["dest"], uid=a["uid"], is_admin=a["is_admin"]), id=i))
        scenarios.append(e2e.scenario("c05-spaced-%d" % s, conns, key=key, concurrent=True))
    results = e2e.run_scenarios(ctx, scenarios, timeout=900)
    ctx.log("e2e: %d scenarios, %d requests" % (len(scenarios), len(cases)))

    # ---------------- implementation: what each host received ----------------
    disagreements, failures = [], []
    seen = {}
    for s, r in enumerate(results):
        if not r.get("ok") or r.get("panics"):
            disagreements.append({"case": {"scenario": s}, "model": "scenario runs", "impl": {"error": r.get("error"), "panics": r.get("panics")}})
            continue
        for host in e2e.MOCKS:
            for uc in r["upstream"].get(host, []):
                for (st, _, en) in uc["requests"]:
                    m = e2e.parse_http(uc["bytes"][st:en])
                    tags = m["header"]("x-tag") if m else []
                    if tags:
                        m["trailer_fields"] = trailer_fields(uc["bytes"][st:en])
                        seen[tags[0]] = (host, m)
    exprs, eval_cases = [], []
    not_relayed_after_close = [0]
    n_spaced = [0]
    n_trailer_hits = [0]
    for c in cases:
        got = seen.get(c["tag"])
        replay = {"scenario": e2e.jsonable(scenarios[c["scenario"]]), "tag": c["tag"],
                  "how": "python3 -c 'import e2e' ; e2e.run_scenarios(ctx, [scenario]) and read upstream[dest]"}
        if got is None:
            st = None
            try:
                st = results[c["scenario"]]["connections"][c["conn"]]["responses"][c["req"]].get("status")
            except (IndexError, KeyError, TypeError):
                pass
            if c["after_close"] and st in (502, 503):
                not_relayed_after_close[0] += 1       # the host had closed the forwarding connection: refused, nothing sent
                continue
            disagreements.append({"case": replay, "model": "relayed", "impl": "the request did not reach %s; statuses %s" % (
                c["dest"], e2e.statuses(results[c["scenario"]]))})
            continue
        host, m = got
        hs = rc.hdr_list(m)
        c["impl_headers"] = hs
        tr = m.get("trailer_fields") or []
        if any(k in OWNED for k, _ in tr):
            n_trailer_hits[0] += 1
        c["impl_trailers"] = tr
        if host != c["dest"]:
            failures.append({"case": replay, "why": "request relayed to %s instead of %s" % (host, c["dest"]), "impl": hs})
        c["answered_t"] = answered_at(results, c)
        # the property speaks of what the host SEES under the owned names: field lines of the header section and of the trailer section
        why = prop_c05(c, hs + tr, now_t, c["answered_t"])
        if why and tr:
            why += " (field lines of the request's trailer section included: %r)" % tr
        if why is None and "after" in c and cases[c["after"]].get("impl_headers"):
            p0 = cases[c["after"]]
            d0, d1 = rc.values(p0["impl_headers"], DATE), rc.values(hs, DATE)
            if len(d0) == 1 and len(d1) == 1:
                why = prop_c05_fresh(d0[0], d1[0], p0.get("answered_t"), c["answered_t"])
                n_spaced[0] += 1
        if why:
            failures.append({"case": replay, "why": why, "impl": hs})
        dates = rc.values(hs, DATE)
        now_v = dates[0] if len(dates) == 1 else "?"
        path, q = rc.split_target(c["target"])
        wire = [(k, rc.trim_ows(v)) for k, v in [("Host", "x")] + c["headers"]]
        if c.get("trailers") is not None:
            wire.append(("Transfer-Encoding", "chunked"))
        elif c["body"] or c["method"] in ("POST", "PUT"):
            wire.append(("Content-Length", str(len(c["body"]))))
        if c.get("trailers") is not None:
            # a request with a trailer section goes through Trailers.forward_wire: the model returns EVERY field the host must see,
            # head and trailer sections together
            exprs.append("c05_trailer_case (%d)%%Z %s %s %s %s %s %s %s %s %s" % (
                c["is_admin"], cb(now_v), rc.coq_opt(c["key"]["key"] if c["key"] else None),
                rc.coq_opt(c["key"]["guid"] if c["key"] else None), cb(c["method"]), cb(path), rc.coq_opt(q),
                rc.coq_wire(wire), rc.coq_wire([(k, rc.trim_ows(v)) for k, v in c["trailers"]]), cb(c["body"])))
        else:
            exprs.append("c05_case (%d)%%Z %s %s %s %s %s %s %s %s" % (
                c["is_admin"], cb(now_v), rc.coq_opt(c["key"]["key"] if c["key"] else None),
                rc.coq_opt(c["key"]["guid"] if c["key"] else None), cb(c["method"]), cb(path), rc.coq_opt(q),
                rc.coq_wire(wire), cb(c["body"])))
        eval_cases.append((c, replay))

    # ---------------- model ----------------
    if broken:
        exprs, eval_cases = [], []          # stale constants: predicate only
    model = vplib.coq_eval(ctx, "From GPA Require Import Headers Trailers.", exprs, shard=60)
    ctx.log("model: %d requests evaluated" % len(model))
    signed_n = 0
    for (c, replay), mo in zip(eval_cases, model):
        # for a request with a trailer section the comparison is over everything the host saw, head AND trailer sections
        hs = rc.drop(c["impl_headers"] + (c.get("impl_trailers") or [] if c.get("trailers") is not None else []), rc.FRAMING)
        if mo is None:
            disagreements.append({"case": replay, "model": "502 (illegal header value)", "impl": hs})
            continue
        mh, signed, sig_input = mo[1]
        mh = rc.drop(rc.model_headers(mh), rc.FRAMING)
        if signed:
            signed_n += 1
            # the MAC on the wire must be over the model's string-to-sign, under the latched key
            auths = rc.values(hs, AUTH)
            expect = hmac.new(bytes.fromhex(c["key"]["key"]), bytes(sig_input), hashlib.sha256).hexdigest()
            if len(auths) == 1 and auths[0] == "%s %s %s" % (SCHEME, c["key"]["guid"], expect):
                hs = [(k, "%s %s " % (SCHEME, c["key"]["guid"]) if k == AUTH else v) for k, v in hs]
            else:
                disagreements.append({"case": replay, "model": {"authorization": "%s %s %s" % (SCHEME, c["key"]["guid"], expect),
                                                                  "string_to_sign": bytes(sig_input).decode("latin-1")},
                                      "impl": auths})
                continue
        # compared name by name (all values of a name, in order): the order of DIFFERENT names on the wire is not something the
        # property or its observers depend on (e.g. swapping the two inserts is harmless); Headers.others_order stays a theorem
        # about the model only
        if c.get("impl_trailers") and any(k in OWNED for k, _ in c["impl_trailers"]):
            disagreements.append({"case": replay, "model": "no field under a proxy-owned name behind the body", "impl": c["impl_trailers"]})
        if by_name(mh) != by_name(hs):
            disagreements.append({"case": replay, "model": mh, "impl": hs})

    # ---------------- coverage ----------------
    def shape(c):
        cnt = tuple(sum(1 for k, _ in c["headers"] if k.lower() == n) for n in OWNED)
        return (cnt, c["is_admin"] == 1, c["key"] is not None, rc.is_exempt(c["method"], c["target"]))
    nontrivial = {(shape(c), tuple(c["headers"])) for c in cases if any(shape(c)[0])}
    dist = {}
    for c in cases:
        k = "claims x%d, date x%d, auth x%d" % shape(c)[0]
        dist[k] = dist.get(k, 0) + 1
    ctx.coverage.update({
        "evaluations": len(cases),
        "distinct_nontrivial": len(nontrivial),
        "traces_validated_against_impl": len(model) - len(disagreements),
        "rule": "one relayed request per case: 0-3 client copies of each proxy-owned header name in random letter case with adversarial "
                "values (spoofed isRoot claims, past/future/near dates, well-formed Azure-HMAC-SHA256 values with the latched key id), "
                "0-4 other headers incl. repeated names and look-alike names, in a fifth of the cases Connection / Keep-Alive / TE / Trailer / "
                "Upgrade / Proxy-Connection headers whose token lists name the owned headers, in an eighth a second spoofing request on "
                "the same keep-alive connection after the host closed the forwarding connection, elevated / non-elevated attribution (is_admin in "
                "{1,0,2,-1}), no key / hex key / undecodable key, signed and exempt targets incl. case variants; non-trivial = at "
                "least one client copy of an owned name, distinct by (header list, caller, key state, exempt)",
        "exhaustive": False,
        "samples": [{"sent": eval_cases[i][0]["headers"], "is_admin": eval_cases[i][0]["is_admin"],
                     "key": bool(eval_cases[i][0]["key"]), "target": eval_cases[i][0]["method"] + " " + eval_cases[i][0]["target"],
                     "host_received": eval_cases[i][0]["impl_headers"]} for i in range(min(3, len(eval_cases)))],
        "input_distribution": {"requests": len(cases), "scenarios": len(scenarios), "signed_by_model": signed_n,
                               "elevated": sum(1 for c in cases if c["is_admin"] == 1),
                               "hop_by_hop_headers_naming_owned": sum(1 for c in cases if c["hop"]),
                               "second_request_after_host_closed_upstream": sum(1 for c in cases if c["after_close"]),
                               "of_which_refused_502_503_unrelayed": not_relayed_after_close[0],
                               "keep_alive_pairs_spaced_by_2s_or_more_compared": n_spaced[0],
                               "chunked_requests_with_owned_names_in_the_trailer_section": sum(1 for c in cases if c.get("trailers")),
                               "exempt_targets": sum(1 for c in cases if rc.is_exempt(c["method"], c["target"])),
                               "owned_header_multiplicities": dict(sorted(dist.items(), key=lambda kv: -kv[1])[:12])},
    })
    ctx.assumptions += [
        "http::HeaderMap semantics (insert = replace all values of the name, names stored lower-case, iteration groups the values "
        "of a name) are definitions of the model, tied to the real library by this run only",
        "the signature itself (HMAC-SHA256) is recomputed with Python's hmac over the model's string-to-sign; C04 owns the canonical string",
        "header values with bytes >= 0x80 are not generated here (they make the signing code panic: C13 / finding F7)",
        "the QUICK tier cannot see a date that goes stale only after a whole minute (e.g. a cache keyed by the second of the minute): "
        "that needs two requests 60 s apart on one thread and is run in the thorough tier only (minute_leg)",
        "the date check is: RFC 1123 GMT, within 24 h of this machine's clock, not a client-supplied value, within 3 s of the Date "
        "header hyper's server stamps on the proxy's answer to the same request (same clock), and strictly later than the date of the "
        "previous request of the same keep-alive connection when the two answers are >= 2 s apart",
    ]
    if not ctx.quick:
        mf = minute_leg(ctx, rng, now_t)
        ctx.log("minute-boundary leg: 9 requests, %d failing" % len(mf))
        failures += mf
        ctx.coverage["input_distribution"]["minute_boundary_leg_requests"] = 9
    verdict(ctx, proofs_ok, detail, disagreements, failures,
            corr_name="Headers.proxy_forward vs ProxyServer::handle_new_http_request/handle_request_with_signature (header lines at the mock host)")


if __name__ == "__main__":
    # python3 tools/checks/c05.py minute   -- only the thorough tier's minute-boundary leg (about 62 s), against VERIF_REPO
    import random
    c = vplib.Ctx("C05minute", "thorough", 1)
    try:
        fs = minute_leg(c, random.Random(1), time.time())
        print("minute-boundary leg: %d failing" % len(fs))
        for f in fs[:3]:
            print("  ", f["why"])
    finally:
        c.cleanup()
