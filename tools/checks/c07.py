"""C07 -- Attribution is single-use: a connection never inherits another's identity.
Model: coq/Model/Accept.v; theorems: coq/Props/C07.v; implementation: the REAL proxy listener
(TcpConnectionContext::new -> get_audit_entry -> redirector::lookup_audit / remove_audit through hook H1,
the per-connection context cloned into every request handler) driven end to end by tools/e2e.py.

A scenario is a history of connections over a small source-port alphabet: with / without a kernel
record, immediate source-port reuse (bind + SO_REUSEADDR), keep-alive connections with 1-5 requests,
up to 8 connections accepted concurrently, an injected failing remove.  Every record of a scenario has
a distinct observable identity (destination host x isRoot), so the mock host that receives a request
and the claims header it sees tell WHICH record the request was decided with."""
import vplib
import e2e
from e2e import scenario, conn, req, audit, http_request, IMDS, WIRESERVER, HOSTGA, OTHER, LOCAL_OTHER
from checks.common import verdict

# observable identities: (destination, is_admin).  WireServer / HostGAPlugin are root-only (C03), so
# they appear with is_admin = 1 only; every identity here is relayed (200) when it is the one in force.
DOWN = "10.9.8.7:81"       # nothing listens there: the upstream connect made at accept time fails -> 502
IDENTITIES = [(IMDS, 1), (IMDS, 0), (OTHER, 1), (OTHER, 0), (LOCAL_OTHER, 1), (LOCAL_OTHER, 0),
              (WIRESERVER, 1), (HOSTGA, 1), (DOWN, 1), (DOWN, 0), (WIRESERVER, 0), (HOSTGA, 0)]
DOWN_IDS = {8, 9}
FORBIDDEN_IDS = {10, 11}    # not elevated at a root-only endpoint: refused with 403 for THIS connection's identity (C03)
PORT_POOL = [p for p in range(11000, 17900)]


def gen_history(rng, idx, concurrent):
    n = rng.randint(2, 8)
    ids = list(range(len(IDENTITIES)))
    rng.shuffle(ids)
    # two unreachable-destination identities are not told apart by an observer: use at most one per history
    if 8 in ids[:n + 2] and 9 in ids[:n + 2]:
        ids.remove(9)
    if concurrent:
        ports = rng.sample(PORT_POOL, n)
    else:
        alphabet = rng.sample(PORT_POOL, 3)
        ports = []
        for i in range(n):
            if i > 0 and rng.random() < 0.5:
                ports.append(ports[-1])          # immediate reuse of the previous port
            else:
                ports.append(rng.choice(alphabet))
    inject = (not concurrent) and rng.random() < 0.15
    conns = []
    nxt = 0
    i = 0
    while i < n:
        has_rec = rng.random() < (0.6 if not concurrent else 0.75)
        # 0 requests: connect, wait until accepted, close (sequential histories only)
        k = 0 if (not concurrent and rng.random() < 0.15) else rng.randint(1, 5)
        c = {"id": i + 1, "port": ports[i], "rec": None, "nreq": k, "fail": False, "pre": False, "late": None}
        if k == 0 and rng.random() < 0.5:
            c["extra"] = {"reset_after_connect": True}        # RST right after the handshake instead of FIN
        if rng.random() < 0.25:
            # the client bound its socket to another local address (the map is keyed by the port alone)
            c.setdefault("extra", {})["local_ip"] = "127.0.0.%d" % rng.choice([2, 3, 77])
        # requests that are answered locally for everybody (GET /provision), preferably the FIRST of the connection
        c["prov"] = sorted({j for j in range(k) if rng.random() < (0.2 if j == 0 else 0.05)})
        # requests in which the CLIENT supplies the proxy-owned claims header (claiming the opposite elevation)
        c["spoof"] = sorted({j for j in range(k) if rng.random() < 0.2})
        if has_rec:
            c["rec"] = ids[nxt]
            nxt += 1
        if inject:
            c["fail"] = rng.random() < 0.4
        conns.append(c)
        # a record written for the NEXT connection from this port while this direct connection is still open
        if (not concurrent and not inject and c["rec"] is None and k >= 2 and i + 1 < n and rng.random() < 0.5):
            ports[i + 1] = ports[i]
            c["late"] = (rng.randrange(k - 1), ids[nxt])          # after request j the kernel writes record ids[nxt]
            conns.append({"id": i + 2, "port": ports[i], "rec": ids[nxt], "nreq": rng.randint(1, 4), "fail": False,
                          "pre": True, "late": None, "prov": [], "spoof": [0]})
            nxt += 1
            i += 1
        i += 1
    return {"idx": idx, "concurrent": concurrent, "conns": conns}


def ident_audit(rec, pid=None, uid=None):
    dest, adm = IDENTITIES[rec]
    return audit(dest, uid=(0 if adm else e2e.NOBODY_UID) if uid is None else uid,
                 pid=pid or ("self" if rec % 2 == 0 else "helper"), is_admin=adm)


def to_scenario(h):
    """Connections may carry "extra" (knobs merged into the runner's connection: ops_before_connect, ops_before_close,
    local_ip), "req_after" ({request index: ops}) and "pid" (audit pid).  h["run_concurrent"]: all connections at once
    although the model replays them in program order (the choreography's barriers fix the order that matters)."""
    cs = []
    failing = False
    at_once = h["concurrent"] or h.get("run_concurrent")
    accepted = {}           # port -> connections accepted from it so far
    for c in h["conns"]:
        accepted[c["port"]] = accepted.get(c["port"], 0) + 1
        reqs = []
        for j in range(c["nreq"]):
            raw = request_raw(h, c, j)
            after = []
            if j == 0 and not at_once:
                after.append({"op": "snapshot", "label": c["id"]})
            if c.get("late") and c["late"][0] == j:
                after.append({"op": "insert_audit", "port": c["port"], "audit": ident_audit(c["late"][1])})
            after += (c.get("req_after") or {}).get(j, [])
            reqs.append(req(raw, ops_after=after) if after else req(raw))
        a = ident_audit(c["rec"], c.get("pid"), c.get("uid")) if (c["rec"] is not None and not c.get("pre")) else None
        knobs = {}
        if c["fail"] != failing:
            knobs["ops_before_connect"] = [{"op": "fail_remove", "value": c["fail"]}]
            failing = c["fail"]
        if c["nreq"] == 0 and not at_once:
            # no request at all: wait until the listener has accepted the connection, look at the map, close
            knobs["ops_before_close"] = [{"op": "wait_trace", "port": c["port"], "lookups": accepted[c["port"]]},
                                         {"op": "snapshot", "label": c["id"]}]
        for k, v in (c.get("extra") or {}).items():
            knobs[k] = (knobs.get(k, []) + v) if isinstance(v, list) else v
        cs.append(conn(reqs, audit=a, local_port=c["port"], id=c["id"], **knobs))
    sc = scenario({"c07": h["idx"]}, cs, concurrent=bool(at_once))
    sc.update(h.get("scenario_extra") or {})
    return sc


def request_raw(h, c, j):
    hs = [("Metadata", "true")]
    if j in (c.get("spoof") or []):
        own = IDENTITIES[c["rec"]][1] if c["rec"] is not None else 0
        hs.append(("x-ms-azure-host-claims", '{ "isRoot": "%s"}' % ("false" if own else "true")))
    if j in (c.get("prov") or []):
        return http_request("GET", "/provision", hs)
    return http_request("GET", "/s%d/c%d/r%d?x=1" % (h["idx"], c["id"], j), hs)


def C(i, port, rec, nreq, fail=False, pre=False, late=None, **kw):
    return dict({"id": i, "port": port, "rec": rec, "nreq": nreq, "fail": fail, "pre": pre, "late": late}, **kw)


def choreographies():
    """fixed histories whose order is pinned by barriers (run at once, modelled in program order)"""
    out = []
    # (a) more simultaneously open connections than any plausible admission limit (520 idle direct ones), THEN an
    #     attributed connection: it must be served with its own record and its record consumed; after the load is gone a
    #     direct connection from the same port is unattributed
    n_idle = 520
    P = 3990
    idle = [C(i + 1, 4000 + i, None, 0, extra={"ops_before_close": [{"op": "barrier", "name": "open", "n": n_idle + 1},
                                                                    {"op": "barrier", "name": "done", "n": n_idle + 2}]})
            for i in range(n_idle)]
    a = C(n_idle + 1, P, 0, 2, extra={"ops_before_connect": [{"op": "barrier", "name": "open", "n": n_idle + 1}],
                                      "ops_before_close": [{"op": "barrier", "name": "done", "n": n_idle + 2}]})
    d = C(n_idle + 2, P, None, 1, optional=True,
          extra={"ops_before_connect": [{"op": "barrier", "name": "done", "n": n_idle + 2}, {"op": "sleep_ms", "ms": 400}]})
    out.append({"idx": 910001, "concurrent": False, "run_concurrent": True, "skip_trace": True, "conns": idle + [a, d],
                "scenario_extra": {"scenario_timeout_ms": 240000, "timeout_ms": 60000}})
    # (b) while an attributed keep-alive connection from 127.0.0.1:P is open (its accept is over), direct connections from
    #     127.0.0.2:P and 127.0.0.3:P -- the map is keyed by the port alone -- must find nothing
    P = 3991
    a = C(1, P, 2, 3, req_after={0: [{"op": "barrier", "name": "b1", "n": 3}]},
          extra={"ops_before_close": [{"op": "barrier", "name": "b2", "n": 3}]})
    ds = [C(2 + k, P, None, 2, extra={"local_ip": "127.0.0.%d" % (2 + k), "ops_before_connect": [{"op": "barrier", "name": "b1", "n": 3}],
                                      "ops_before_close": [{"op": "barrier", "name": "b2", "n": 3}]}) for k in range(2)]
    out.append({"idx": 910002, "concurrent": False, "run_concurrent": True, "skip_trace": True, "conns": [a] + ds})
    # (c) one process, two connections, exec() of another image in between: each connection's requests carry the
    #     identity the process had at ITS connect
    out.append({"idx": 910003, "concurrent": False, "exec": "h1",
                "scenario_extra": {"exec_helpers": {"h1": ["tail", "-f", "/dev/null"]}},
                "conns": [C(1, 3992, 0, 2, pid="h1"), C(2, 3993, 2, 3, pid="h1", extra={"ops_before_connect": [{"op": "helper_exec", "name": "h1"}]}),
                          C(3, 3992, None, 1)]})
    # (d) an attributed client resets its connection right after the handshake; its record must be consumed all the
    #     same, and the direct connection that reuses the port is unattributed
    out.append({"idx": 910004, "concurrent": False, "conns": [
        C(1, 3994, 0, 0, extra={"reset_after_connect": True}), C(2, 3994, None, 2),
        C(3, 3995, 6, 0, extra={"reset_after_connect": True}), C(4, 3995, None, 1), C(5, 3995, 2, 1)]})
    # (e) two identities at the same root-only endpoint, in both orders: each judged by its own
    out.append({"idx": 910005, "concurrent": False, "conns": [
        C(1, 3996, 6, 2), C(2, 3997, 10, 2), C(3, 3996, 6, 1), C(4, 3998, 11, 1), C(5, 3997, 7, 2), C(6, 3998, 11, 1)]})
    out.append({"idx": 910006, "concurrent": False, "conns": [
        C(1, 3996, 10, 1), C(2, 3997, 6, 2), C(3, 3996, 11, 1), C(4, 3998, 7, 1)]})
    # (g) a recorded client bound to another local address, then the port reused from 127.0.0.1 without a record;
    #     a recorded connection whose FIRST request is GET /provision, more requests, then the port reused;
    #     a non-elevated connection whose client supplies an elevated claims header
    out.append({"idx": 910008, "concurrent": False, "conns": [
        C(1, 3980, 0, 2, extra={"local_ip": "127.0.0.2"}), C(2, 3980, None, 2),
        C(3, 3981, 2, 3, prov=[0]), C(4, 3981, None, 1),
        C(5, 3982, 1, 3, spoof=[1, 2]), C(6, 3983, 6, 2, spoof=[0]), C(7, 3982, None, 1, spoof=[0])]})
    # (f) more distinct users than any plausible user cache holds, then returning users: the user part of the identity
    #     of every connection is the one of ITS uid
    conns = [C(1, 5000, 1, 1, uid=e2e.NOBODY_UID), C(2, 5001, 1, 1, uid=1)]
    for i in range(300):
        conns.append(C(3 + i, 5002 + i, 1, 1, uid=100000 + i))
    conns += [C(303, 5400, 0, 1, uid=0), C(304, 5401, 1, 2, uid=e2e.NOBODY_UID), C(305, 5402, 1, 1, uid=1), C(306, 5403, 0, 1, uid=0),
              C(307, 5404, 1, 1, uid=100000)]
    out.append({"idx": 910007, "concurrent": False, "users": True, "conns": conns,
                "scenario_extra": {"scenario_timeout_ms": 300000}})
    return out


def user_name(uid):
    import pwd
    try:
        return pwd.getpwuid(uid).pw_name
    except KeyError:
        return "undefined"


def user_check(h, r):
    """(f): the user part of the identity, as the agent's connection summary shows it per forwarded request"""
    want, have = {}, {}
    for c in h["conns"]:
        if c["rec"] is not None and c.get("uid") is not None:
            n = user_name(c["uid"])
            want[n] = want.get(n, 0) + c["nreq"]
    for e in (r.get("summary") or {}).get("ok") or []:
        if e.get("responseStatus", "").startswith("200"):
            have[e["userName"]] = have.get(e["userName"], 0) + e["count"]
    if have != want:
        return ("after %d distinct uids the forwarded requests are attributed to users %r, the uids' users are %r" % (
            len({c.get("uid") for c in h["conns"]}), sorted(have.items()), sorted(want.items())))
    return None


def exec_check(h, r):
    """(c): the process part of the identity, as the agent's connection summary shows it per forwarded request"""
    hp = (r.get("helpers") or {}).get(h["exec"]) or {}
    before, after = hp.get("exe_before"), hp.get("exe_after")
    if not before or not after or before == after:
        return None          # the helper did not change its image: nothing to judge
    want = {}
    execd = False
    for c in h["conns"]:
        if any(o.get("op") == "helper_exec" for o in (c.get("extra") or {}).get("ops_before_connect", [])):
            execd = True
        if c.get("pid") == h["exec"] and c["rec"] is not None and c["rec"] not in DOWN_IDS:
            ip, port = IDENTITIES[c["rec"]][0].rsplit(":", 1)
            k = (after if execd else before, ip, int(port))
            want[k] = want.get(k, 0) + c["nreq"]
    have = {}
    for e in (r.get("summary") or {}).get("ok") or []:
        if e.get("responseStatus", "").startswith("200"):
            k = (e.get("processFullPath"), e["ip"], e["port"])
            have[k] = have.get(k, 0) + e["count"]
    if have != want:
        return ("the process exec()ed %s -> %s between its two connections; the requests were forwarded under %r, the identities at "
                "connect time are %r" % (before, after, sorted(have.items()), sorted(want.items())))
    return None


def addr_of(c):
    """the client's full source address as the kernel sees it: (local ip as a number, source port)"""
    ip = (c.get("extra") or {}).get("local_ip", "127.0.0.1")
    a, b, cc, d = [int(x) for x in ip.split(".")]
    return "(%d, %d)" % (((a * 256 + b) * 256 + cc) * 256 + d, c["port"])


def model_history(h, trace):
    """The history as a list of Coq op terms (R = record index, Q = request index) plus the prefix
    lengths at which the audit map was snapshotted.  Sequential: program order.  Concurrent: the
    Lookup/Remove steps in the order the real run's trace shows them."""
    ops, cuts = [], []
    by_port = {}
    if not h["concurrent"]:
        for c in h["conns"]:
            if c["rec"] is not None and not c["pre"]:
                ops.append("AKRecord %d %s %d" % (c["id"], addr_of(c), c["rec"]))
            ops.append("ALookup %d %s" % (c["id"], addr_of(c)))
            ops.append("ARemove %d %s" % (c["id"], "false" if c["fail"] else "true"))
            if c["nreq"] == 0 and not h.get("run_concurrent"):
                cuts.append(len(ops))
            for j in range(c["nreq"]):
                ops.append("ARequest %d %d" % (c["id"], j))
                if j == 0 and not h.get("run_concurrent"):
                    cuts.append(len(ops))
                if c["late"] and c["late"][0] == j:
                    # the kernel's write for the NEXT connection from this port (ghost tag = its id)
                    ops.append("AKRecord %d %s %d" % (c["id"] + 1, addr_of(next(k for k in h["conns"] if k["id"] == c["id"] + 1)), c["late"][1]))
            ops.append("AClose %d" % c["id"])
    else:
        for c in h["conns"]:
            by_port[c["port"]] = c
            if c["rec"] is not None:
                ops.append("AKRecord %d %s %d" % (c["id"], addr_of(c), c["rec"]))
        seen = set()
        for ev in trace:
            c = by_port.get(ev.get("port"))
            if c is None:
                continue
            if ev["ev"] == "lookup":
                ops.append("ALookup %d %s" % (c["id"], addr_of(c)))
                seen.add(c["id"])
            elif ev["ev"] == "remove":
                ops.append("ARemove %d %s" % (c["id"], "false" if ev.get("failed") else "true"))
        for c in h["conns"]:
            if c["id"] not in seen:      # the real run never looked this connection up: keep the model total
                ops.append("ALookup %d %s" % (c["id"], addr_of(c)))
                ops.append("ARemove %d true" % c["id"])
        for c in h["conns"]:
            for j in range(c["nreq"]):
                ops.append("ARequest %d %d" % (c["id"], j))
            ops.append("AClose %d" % c["id"])
    return ops, cuts


def observe(h, r):
    """per request: (conn id, request index) -> (status, identity index the request was relayed under or None)"""
    where = {}
    for host in e2e.MOCKS:
        for upc in e2e.upstream_messages(r, host):
            for m in upc:
                if m is None or not m.get("target"):
                    continue
                cl = m["header"]("x-ms-azure-host-claims")
                adm = None
                if len(cl) == 1 and cl[0] is not None:
                    adm = 1 if '"true"' in cl[0] else (0 if '"false"' in cl[0] else None)
                where.setdefault(m["target"], []).append((host, adm, len(cl)))
    obs = {}
    byid = {c.get("id"): c for c in r["connections"]}
    for c in h["conns"]:
        rc = byid.get(c["id"], {})
        resp = rc.get("responses", [])
        for j in range(c["nreq"]):
            st = resp[j].get("status") if j < len(resp) else None
            tgt = "/s%d/c%d/r%d?x=1" % (h["idx"], c["id"], j)
            seen = where.get(tgt, []) if j not in (c.get("prov") or []) else [x for x in where.get("/provision", [])][:0]
            ident = None
            if len(seen) == 1:
                host, adm, _ = seen[0]
                ident = IDENTITIES.index((host, adm)) if (host, adm) in IDENTITIES else ("?", host, adm)
            elif len(seen) > 1:
                ident = ("multiple", seen)
            obs[(c["id"], j)] = (st, ident)
    return obs


def relayed_targets(r):
    out = set()
    for host in e2e.MOCKS:
        for upc in e2e.upstream_messages(r, host):
            for m in upc:
                if m is not None and m.get("target"):
                    out.add(m["target"])
    return out


def expected_obs(ctx_ident):
    if ctx_ident is None:
        return (421, None)
    if ctx_ident in DOWN_IDS:
        return (502, None)          # attributed, but the destination was unreachable at accept time
    if ctx_ident in FORBIDDEN_IDS:
        return (403, None)          # attributed, decided for its own (not elevated) identity
    return (200, ctx_ident)


def property_check(h, r, obs):
    """The property text on the observed behaviour (no model involved).  Returns a reason or None."""
    injected = any(c["fail"] for c in h["conns"])
    snaps = {s["label"]: [p for p, _ in s["audit_map"]] for s in r.get("snapshots", [])}
    for c in h["conns"]:
        for j in range(c["nreq"]):
            st, ident = obs[(c["id"], j)]
            if j in (c.get("prov") or []):
                if "/provision" in relayed_targets(r):
                    return "GET /provision (request %d on connection %d) was relayed to a host" % (j, c["id"])
                continue            # answered locally for everybody: says nothing about the connection's identity
            if c["rec"] is not None and c["rec"] in DOWN_IDS:
                # own record names a destination where nothing listens: attributed, answered 502, nothing relayed
                if ident is not None or st != 502:
                    return "request %d on connection %d (own record %r, unreachable) was answered %s%s" % (
                        j, c["id"], IDENTITIES[c["rec"]], st, "" if ident is None else " and relayed under %r" % (ident,))
            elif c["rec"] is not None and c["rec"] in FORBIDDEN_IDS:
                # own identity is not elevated at a root-only endpoint: judged by ITS identity -> 403, nothing relayed,
                # whoever else reached that endpoint before
                if ident is not None or st != 403:
                    return "request %d on connection %d (own record %r, not elevated) was answered %s%s" % (
                        j, c["id"], IDENTITIES[c["rec"]], st, "" if ident is None else " and relayed")
            elif c["rec"] is not None:
                # the kernel recorded an identity for this very connection: every request on it is
                # decided with exactly that identity
                if ident != c["rec"] or st != 200:
                    who = ("another connection's identity %r" % (IDENTITIES[ident],) if isinstance(ident, int) else "no identity")
                    return "request %d on connection %d (own record %r) was handled with %s (status %s)" % (
                        j, c["id"], IDENTITIES[c["rec"]], who, st)
            elif not injected:
                # no kernel record for this connection (direct, or reusing a source port; also when a record for
                # ANOTHER connection shows up under its port later): unattributed at accept, never relayed, refused
                if ident is not None or st != 421:
                    return "request %d on connection %d, which has NO kernel record (port %d), was %s (status %s)" % (
                        j, c["id"], c["port"],
                        "relayed under identity %r" % (IDENTITIES[ident],) if isinstance(ident, int) else "not refused with 421", st)
        if not injected and not h["concurrent"] and not h.get("run_concurrent"):
            left = snaps.get(c["id"])
            if left is not None and c["port"] in left:
                return "the record of source port %d is still in the audit map after connection %d was accepted" % (c["port"], c["id"])
    if not injected and [p for p, _ in r.get("audit_map", [])]:
        return ("every accepted connection's record must be consumed, but records are left in the audit map at the end of the "
                "history: %r" % (r["audit_map"],))
    if h.get("exec"):
        return exec_check(h, r)
    if h.get("users"):
        return user_check(h, r)
    return None


def run(ctx):
    vplib.gen_consts(ctx)
    proofs_ok, detail = vplib.check_proofs(ctx)
    ctx.log("proofs:", proofs_ok, detail[:200])
    rng = ctx.rng
    nseq, nconc = (210, 90) if ctx.quick else (3500, 1500)
    hs = [gen_history(rng, i, False) for i in range(nseq)] + [gen_history(rng, nseq + i, True) for i in range(nconc)]
    # fixed corner cases first: reuse after attributed, reuse with a fresh record, failing remove + reuse
    fixed = [
        # reuse after an attributed connection, reuse with a fresh record, reuse again
        {"idx": 900001, "concurrent": False, "conns": [C(1, 11001, 0, 3), C(2, 11001, None, 2), C(3, 11001, 6, 2), C(4, 11001, None, 1)]},
        # an injected failing remove, then reuse
        {"idx": 900002, "concurrent": False, "conns": [C(1, 11002, 2, 1, fail=True), C(2, 11002, None, 2), C(3, 11002, None, 1)]},
        {"idx": 900003, "concurrent": True, "conns": [C(i + 1, 11010 + i, (i if i % 3 else None), 1 + i % 5) for i in range(8)]},
        # an attributed connection that never sends a request, then a direct connection reusing its port
        {"idx": 900004, "concurrent": False, "conns": [C(1, 11003, 0, 0), C(2, 11003, None, 2), C(3, 11004, None, 0), C(4, 11004, 2, 1)]},
        # the recorded destination is unreachable at accept time (502), then the port is reused without a record
        {"idx": 900005, "concurrent": False, "conns": [C(1, 11005, 8, 2), C(2, 11005, None, 2), C(3, 11005, 9, 0), C(4, 11005, None, 1)]},
        # a record for the NEXT connection appears under the port of a still open direct connection
        {"idx": 900006, "concurrent": False, "conns": [C(1, 11006, None, 3, late=(0, 0)), C(2, 11006, 0, 2, pre=True), C(3, 11006, None, 1)]},
    ]
    hs = fixed + choreographies() + hs
    scs = [to_scenario(h) for h in hs]
    for sc in scs:
        sc.setdefault("timeout_ms", 60000)              # generous: a slow machine is not a verdict
        sc.setdefault("scenario_timeout_ms", 300000)
    results = e2e.run_scenarios(ctx, scs, timeout=1500, shards=4 if ctx.quick else 8)

    def inconclusive(r):
        return (not r.get("ok")) or any(x.get("timeout") for c in r.get("connections", []) for x in c.get("responses", []))
    again = [i for i, r in enumerate(results) if inconclusive(r) and not r.get("panics")]
    if again:
        # the runner itself gave up (timeouts under load): once more, alone
        for i, r in zip(again, e2e.run_scenarios(ctx, [scs[i] for i in again], timeout=1500, shards=1)):
            results[i] = r
        ctx.notes.append("%d histories were run a second time because the runner timed out on the first attempt" % len(again))
    ctx.log("implementation: %d histories run" % len(results))

    # ---------------- model ----------------
    prelude = ("Definition ev (ah : list (aop N N)) (cuts : list nat) :=\n  let h := map proj ah in\n"
               "  (map (fun o => match o with Decided c r x => (c, r, x) end) (outs init h),\n"
               "   map fst (audit (final init h)),\n"
               "   map (fun n => map fst (audit (final init (firstn n h)))) cuts,\n"
               "   map (fun kv => (fst kv, cs_ctx (snd kv))) (conns (final init h)),\n"
               "   (exclusive h, removes_ok h)).\n")
    exprs = []
    for h, r in zip(hs, results):
        ops, cuts = model_history(h, r.get("trace", []))
        exprs.append("ev [%s] [%s]" % ("; ".join(ops), "; ".join("%d%%nat" % c for c in cuts)))
    model = vplib.coq_eval(ctx, "From GPA Require Import Accept AcceptAddr.\nOpen Scope N_scope.", exprs, prelude=prelude, shard=60)

    # ---------------- compare + property ----------------
    disagreements, failures = [], []
    n_req = n_attr = n_unattr = n_reuse = n_stale = 0
    for h, r, mo in zip(hs, results, model):
        opt = {c["id"] for c in h["conns"] if c.get("optional")}
        if opt and any(c.get("id") in opt and c.get("connect_error") for c in r["connections"]):
            # the port-reusing tail of a choreography could not bind/connect in time: judge the history without it
            bad = {c.get("id") for c in r["connections"] if c.get("id") in opt and c.get("connect_error")}
            h = dict(h, conns=[c for c in h["conns"] if c["id"] not in bad])
            r = dict(r, connections=[c for c in r["connections"] if c.get("id") not in bad])
            mo = (bad, mo)
        case = {"history": h if len(h["conns"]) < 40 else dict(h, conns="%d connections" % len(h["conns"])), "scenario_name": r.get("name")}
        if not r.get("ok") or any(c.get("connect_error") or c.get("error") for c in r["connections"]) or r.get("panics"):
            disagreements.append({"case": case, "model": "runs", "impl": {"error": r.get("error"), "panics": r.get("panics"),
                                  "conn_errors": [(c.get("connect_error"), c.get("error")) for c in r["connections"]]}})
            continue
        dropped = set()
        if isinstance(mo, tuple) and len(mo) == 2:
            dropped, mo = mo
        decided, final_ports, snap_ports, ctx_table, (excl, rok) = mo
        decided = [x for x in decided if x[0] not in dropped]
        ctx_table = [x for x in ctx_table if x[0] not in dropped]
        obs = observe(h, r)
        why = property_check(h, r, obs)
        if why:
            failures.append({"case": case, "why": why, "impl": {"statuses": e2e.statuses(r), "trace": r["trace"],
                             "audit_map": r["audit_map"], "replay": e2e.jsonable(to_scenario(h))}})
        if not excl:
            disagreements.append({"case": case, "model": "history not exclusive (generator/mapping error)", "impl": r["trace"]})
            continue
        # per request
        m_obs = {}
        for (c, j, x) in decided:
            cc = next(k for k in h["conns"] if k["id"] == c)
            m_obs[(c, j)] = (200, None) if j in (cc.get("prov") or []) else expected_obs(None if x is None else x[1])
        if m_obs != obs:
            diff = {str(k): {"model": m_obs.get(k), "impl": obs.get(k)} for k in set(m_obs) | set(obs) if m_obs.get(k) != obs.get(k)}
            disagreements.append({"case": case, "model": "per-request context", "impl": diff})
        # final map and the map after each accept
        if sorted(final_ports) != sorted(p for p, _ in r["audit_map"]):
            disagreements.append({"case": case, "model": {"final_audit_ports": sorted(final_ports)}, "impl": r["audit_map"]})
        if not h["concurrent"]:
            got = [sorted(p for p, _ in s["audit_map"]) for s in r["snapshots"]]
            if not h.get("run_concurrent") and got != [sorted(x) for x in snap_ports]:
                disagreements.append({"case": case, "model": {"audit_ports_after_each_accept": snap_ports}, "impl": got})
            # the lookup/remove trace in program order
            want = []
            ctxs = {c: x for (c, x) in ctx_table}
            for c in h["conns"]:
                found = ctxs.get(c["id"]) is not None
                want.append(("lookup", c["port"], found))
                if found:
                    want.append(("remove", c["port"], c["fail"]))
            have = [(e["ev"], e["port"], e["found"] if e["ev"] == "lookup" else e["failed"]) for e in r["trace"] if e["ev"] in ("lookup", "remove")]
            if h.get("skip_trace"):
                want, have = sorted(want), sorted(have)          # order across connections is the scheduler's
            if want != have:
                disagreements.append({"case": case, "model": {"trace": want[:50]}, "impl": have[:50]})
        for c in h["conns"]:
            n_req += c["nreq"]
        n_attr += sum(1 for c in h["conns"] if c["rec"] is not None)
        n_unattr += sum(1 for c in h["conns"] if c["rec"] is None)
        seen_ports = set()
        for c in h["conns"]:
            if c["port"] in seen_ports:
                n_reuse += 1
            seen_ports.add(c["port"])
        n_stale += sum(1 for (c, j, x) in decided if x is not None and next(cc for cc in h["conns"] if cc["id"] == c)["rec"] is None and j == 0)

    total = len(hs)
    ctx.coverage.update({
        "evaluations": total,
        "distinct_nontrivial": len({repr(h["conns"]) for h in hs if any(c["rec"] is not None for c in h["conns"]) and len({c["port"] for c in h["conns"]}) < len(h["conns"])})
                               + len({repr(h["conns"]) for h in hs if h["concurrent"]}),
        "traces_validated_against_impl": total - len({repr(d["case"]) for d in disagreements}),
        "rule": "histories of 2-8 connections: sequential over a 3-port alphabet (record / no record, immediate source-port reuse, "
                "0-5 keep-alive requests -- 0 = connect, wait for the accept, close --, records whose destination is unreachable at accept "
                "time, records written for the next connection while a direct connection from the same port is still open, 15% with an "
                "injected failing remove) and concurrent on distinct ports (all connections at "
                "once on a 2-thread runtime; the model replays the lookup/remove order of the real trace); non-trivial = sequential "
                "history with a reused port and at least one record, or a concurrent history; distinct by content",
        "exhaustive": False,
        "samples": [{"history": hs[0], "statuses": e2e.statuses(results[0]), "model_decided": model[0][0]},
                    {"history": hs[1], "statuses": e2e.statuses(results[1]), "model_decided": model[1][0]},
                    {"history": hs[3], "statuses": e2e.statuses(results[3]), "trace": results[3]["trace"]}],
        "input_distribution": {"sequential": nseq + 5, "concurrent": nconc + 1,
                               "connections_without_any_request": sum(1 for h in hs for c in h["conns"] if c["nreq"] == 0),
                               "records_with_unreachable_destination": sum(1 for h in hs for c in h["conns"] if c["rec"] in DOWN_IDS),
                               "records_written_under_an_open_direct_connection": sum(1 for h in hs for c in h["conns"] if c["late"]), "requests": n_req, "connections_with_record": n_attr,
                               "connections_without_record": n_unattr, "port_reuses": n_reuse,
                               "histories_with_injected_remove_failure": sum(1 for h in hs if any(c["fail"] for c in h["conns"])),
                               "stale_record_inherited_after_injected_failure": n_stale},
    })
    ctx.assumptions += [
        "source-port exclusivity (named in Model/Accept.v [exclusive]): from the kernel's write for a connection until that connection's remove step nothing else touches its source port; the end-to-end runs satisfy it by construction (one live connection per source port)",
        "remove_ok: remove_audit succeeds whenever the entry exists; the injected failure (hook FAIL_REMOVE) is exercised for correspondence only, the stale-record inheritance it causes is theorem C07_without_remove_ok_stale_record_inherited, not a finding (it cannot be produced without fault injection)",
        "the audit map is the hook H1 stand-in (redirector::verif_hooks), consulted by the real lookup_audit / remove_audit; the kernel side is C06",
        "concurrency is the runner's 2-thread tokio runtime: interleavings are sampled, the theorems quantify over all of them",
    ]
    verdict(ctx, proofs_ok, detail, disagreements, failures,
            corr_name="Accept.run (two-step accept, per-connection context) vs the real listener end to end")
