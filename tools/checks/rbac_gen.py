"""Shared by tools/checks/c02.py and c03.py: rule-document / claims / URL generators, the JSON
emitter (duplicate object keys allowed), the Coq encoders for Model/Rbac.v, an independent Python
reading of the C02 property text, and the class predicates of the known findings.

Document representation (Python):
  doc  = {"defaultAccess": str, "mode": str, "id": str, "rules": None | rules}
  rules= {"privileges": None | [priv], "roles": None | [role], "identities": None | [ident],
          "roleAssignments": None | [asg]}
  priv = {"name": str, "path": str, "q": None | [(key, value), ...]}     (listing order, duplicates kept)
  role = {"name": str, "privileges": [str]}
  ident= {"name": str, "userName": None|str, "groupName": None|str, "exePath": None|str, "processName": None|str}
  asg  = {"role": str, "identities": [str]}
  claims = {"u": str, "g": [str], "p": bytes, "e": bytes, "el": bool}
"""
import json
import re

from vplib import cb, cbool, clist, copt

# ------------------------------------------------------------------------------------------------
# JSON text (what the host would deliver), with optional null-vs-absent for None
# ------------------------------------------------------------------------------------------------

def js(s):
    return json.dumps(s)


def _obj(members):
    return "{" + ",".join("%s:%s" % (js(k), v) for k, v in members) + "}"


def _opt(members, key, val, null_style):
    """append key unless the value is None and the style says 'absent'"""
    if val is None:
        if null_style == "null":
            members.append((key, "null"))
        return
    members.append((key, val))


def doc_to_json(doc, null_style="absent"):
    m = [("defaultAccess", js(doc["defaultAccess"])), ("mode", js(doc["mode"])), ("id", js(doc.get("id", "x")))]
    r = doc.get("rules")
    if r is None:
        _opt(m, "rules", None, null_style)
    else:
        rm = []
        ps = r.get("privileges")
        _opt(rm, "privileges", None if ps is None else "[" + ",".join(priv_to_json(p, null_style) for p in ps) + "]", null_style)
        rs = r.get("roles")
        _opt(rm, "roles", None if rs is None else "[" + ",".join(
            _obj([("name", js(x["name"])), ("privileges", js(x["privileges"]))]) for x in rs) + "]", null_style)
        ids = r.get("identities")
        _opt(rm, "identities", None if ids is None else "[" + ",".join(ident_to_json(i, null_style) for i in ids) + "]", null_style)
        ras = r.get("roleAssignments")
        _opt(rm, "roleAssignments", None if ras is None else "[" + ",".join(
            _obj([("role", js(x["role"])), ("identities", js(x["identities"]))]) for x in ras) + "]", null_style)
        m.append(("rules", _obj(rm)))
    return _obj(m)


def priv_to_json(p, null_style="absent"):
    m = [("name", js(p["name"])), ("path", js(p["path"]))]
    q = p.get("q")
    _opt(m, "queryParameters", None if q is None else _obj([(k, js(v)) for k, v in q]), null_style)
    return _obj(m)


def ident_to_json(i, null_style="absent"):
    m = [("name", js(i["name"]))]
    for f in ("userName", "groupName", "exePath", "processName"):
        v = i.get(f)
        _opt(m, f, None if v is None else js(v), null_style)
    return _obj(m)


def claims_to_req(c, url):
    return {"u": c["u"], "g": c["g"], "p": c["p"].hex(), "e": c["e"].hex(), "el": c["el"], "url": url}


# ------------------------------------------------------------------------------------------------
# Coq encoders (Model/Rbac.v records, positional constructors)
# ------------------------------------------------------------------------------------------------

def coq_pairs(q):
    return clist(["(%s, %s)" % (cb(k), cb(v)) for k, v in q], "(bytes * bytes)%type")


def coq_priv(p):
    q = p.get("q")
    return "(Build_privilege %s %s %s)" % (cb(p["name"]), cb(p["path"]),
                                           copt(None if q is None else coq_pairs(q), "(list (bytes * bytes))"))


def coq_role(r):
    return "(Build_role %s %s)" % (cb(r["name"]), clist([cb(x) for x in r["privileges"]], "bytes"))


def coq_ident(i):
    def o(f):
        v = i.get(f)
        return copt(None if v is None else cb(v), "bytes")
    return "(Build_identity %s %s %s %s %s)" % (cb(i["name"]), o("userName"), o("groupName"), o("exePath"), o("processName"))


def coq_asg(a):
    return "(Build_assignment %s %s)" % (cb(a["role"]), clist([cb(x) for x in a["identities"]], "bytes"))


def coq_item(doc):
    r = doc.get("rules")
    if r is None:
        rules = "(@None acrules)"
    else:
        def sec(key, enc, ty):
            v = r.get(key)
            return copt(None if v is None else clist([enc(x) for x in v], ty), "(list %s)" % ty)
        rules = "(Some (Build_acrules %s %s %s %s))" % (
            sec("privileges", coq_priv, "privilege"), sec("roles", coq_role, "role"),
            sec("identities", coq_ident, "identity"), sec("roleAssignments", coq_asg, "assignment"))
    return "(Build_item %s %s %s)" % (cb(doc["defaultAccess"]), cb(doc["mode"]), rules)


def coq_claims(c):
    return "(Build_claims %s %s %s %s %s)" % (cb(c["u"]), clist([cb(g) for g in c["g"]], "bytes"),
                                              cb(c["p"]), cb(c["e"]), cbool(c["el"]))


def coq_url(path, query):
    return "(Build_url %s %s)" % (cb(path), cb(query or ""))


# ------------------------------------------------------------------------------------------------
# The property text of C02, read independently in Python
# ------------------------------------------------------------------------------------------------

def split_url(text):
    """path and query of a request URI in origin form ("/p?q#f") or absolute form (scheme://host/p?q)."""
    t = text.split("#", 1)[0]
    m = re.match(r"^[A-Za-z][A-Za-z0-9+.-]*://[^/?]*", t)
    if m:
        t = t[m.end():]
        if not t.startswith("/"):
            t = "/" + t
    if "?" in t:
        p, q = t.split("?", 1)
    else:
        p, q = t, ""
    return p, q


def query_pairs_py(q):
    out = []
    for part in q.split("&"):
        if "=" in part:
            k, v = part.split("=", 1)
        else:
            k, v = part, ""
        if k == "":
            continue            # a pair without a key is not a parameter
        out.append((k, v))
    return out


def lower(s):
    return s.lower()            # Unicode-aware, like Rust's to_lowercase


def priv_match_py(p, path, query):
    """case-insensitive path prefix plus all listed query parameters, case-insensitively; the value
    of a request parameter that occurs more than once is its first occurrence"""
    if not lower(path).startswith(lower(p["path"])):
        return False
    if p.get("q") is not None:
        pairs = query_pairs_py(query)
        for k, v in p["q"]:
            hit = next((pv for pk, pv in pairs if lower(pk) == lower(k)), None)
            if hit is None or lower(hit) != lower(v):
                return False
    return True


def path_components(b):
    """std::path::Path equality on Unix: root flag, leading '.', the other non-empty non-'.' pieces"""
    pieces = b.split(b"/")
    rooted = b.startswith(b"/")
    cur = (not rooted) and pieces[0] == b"."
    return rooted, cur, [x for x in pieces if x not in (b"", b".")]


def id_match_py(i, c):
    """every stated attribute equals the caller's"""
    if i.get("userName") is not None and i["userName"] != c["u"]:
        return False
    if i.get("processName") is not None and i["processName"].encode() != c["p"]:
        return False
    if i.get("exePath") is not None and path_components(i["exePath"].encode()) != path_components(c["e"]):
        return False
    if i.get("groupName") is not None and i["groupName"] not in c["g"]:
        return False
    return True


def parse_mode_py(s):
    l = lower(s)
    return l if l in ("audit", "enforce") else "disabled"     # an unknown mode string disables the rule set


def sections(doc):
    r = doc.get("rules")
    if r is None:
        return None
    t = (r.get("privileges"), r.get("roles"), r.get("identities"), r.get("roleAssignments"))
    return None if any(x is None for x in t) else t


def spec_decide(doc, c, path, query):
    """(decision, branch) per the property text; branch in disabled/identity/privilege_only/default"""
    if parse_mode_py(doc["mode"]) == "disabled":
        return True, "disabled"
    default = lower(doc["defaultAccess"]) == "allow"
    s = sections(doc)
    if s is None:
        return default, "default"
    ps, rs, ids, ras = s
    matched = [p for p in ps if priv_match_py(p, path, query)]
    for p in matched:
        for ra in ras:
            if not any(r["name"] == ra["role"] and p["name"] in r["privileges"] for r in rs):
                continue
            for idn in ra["identities"]:
                if any(i["name"] == idn and id_match_py(i, c) for i in ids):
                    return True, "identity"
    if matched:
        return False, "privilege_only"
    return default, "default"


# ------------------------------------------------------------------------------------------------
# class predicates (mirrors of Rbac.has_duplicate_names / Rbac.KnownClass_C02_F1)
# ------------------------------------------------------------------------------------------------

def ascii_lower(s):
    return "".join(chr(ord(ch) + 32) if "A" <= ch <= "Z" else ch for ch in s)


def _dup(l):
    return len(set(l)) != len(l)


def has_duplicate_names(doc):
    s = sections(doc)
    if s is None:
        return False
    ps, rs, ids, _ = s
    if _dup([p["name"] for p in ps]) or _dup([r["name"] for r in rs]) or _dup([i["name"] for i in ids]):
        return True
    return any(p.get("q") is not None and _dup([ascii_lower(k) for k, _ in p["q"]]) for p in ps)


def f1_class(doc):
    """some privilege path changes under lower-casing (for ASCII-cased strings: contains A-Z)"""
    s = sections(doc)
    if s is None:
        return False
    return any(lower(p["path"]) != p["path"] for p in s[0])


def rule_strings(doc):
    s = sections(doc)
    out = []
    if s:
        for p in s[0]:
            out.append(p["path"])
            for k, v in (p.get("q") or []):
                out += [k, v]
    return out


def outside_model(doc):
    """a rule string whose Unicode lower-casing differs from its ASCII lower-casing: Rust's
    to_lowercase and the model's [lower] may then differ (DESIGN 2.1, hypothesis ascii_cased)"""
    return any(lower(s) != ascii_lower(s) for s in rule_strings(doc) + [doc["mode"], doc["defaultAccess"]])


# ------------------------------------------------------------------------------------------------
# generators (all randomness from the rng passed in)
# ------------------------------------------------------------------------------------------------
NAMES = ["a", "b", "c", "d", "e"]
ODD_NAMES = ["A", "", "a ", "é"]
PATH_SEGS = ["machine", "metadata", "instance", "identity", "oauth2", "token", "vmSettings", "plugins", "a", "b", "ab"]
QKEYS = ["comp", "type", "api-version", "a", "ab", "k"]
QVALS = ["goalstate", "telemetrydata", "2021-01-01", "1", "", "x", "k"]
USERS = ["root", "azureuser", "Root", "svc", ""]
GROUPS = ["root", "wheel", "adm", "Adm", "docker"]
PROCS = ["python3", "waagent", "curl", "Python3", ""]
EXES = ["/usr/bin/python3", "/usr/sbin/waagent", "/usr/bin/curl", "/opt/x/bin/agent", "bin/tool", "./tool", "tool", ""]
KELVIN = "\u212a"          # KELVIN SIGN: its Unicode lower-casing is the ASCII letter k
NONASCII = ["é", "É", "ü", "Ü", KELVIN, "中", "ß"]
MODES = ["enforce", "audit", "disabled", "Enforce", "AUDIT", "Disabled", "enFORCE", "", "on", "enforced", "audit "]
DEFAULTS = ["allow", "deny", "Allow", "DENY", "ALLOW", "", "allowed", "true", " allow"]


def recase(rng, s):
    """random ASCII letter-case change"""
    mode = rng.randrange(5)
    if mode == 0:
        return s
    if mode == 1:
        return s.upper() if s.isascii() else "".join(ch.upper() if ch.isascii() else ch for ch in s)
    if mode == 2:
        return ascii_lower(s)
    return "".join((ch.swapcase() if ch.isascii() and rng.random() < 0.5 else ch) for ch in s)


def gen_path(rng, depth=None):
    d = rng.choice([0, 1, 1, 2, 2, 3]) if depth is None else depth
    p = "".join("/" + rng.choice(PATH_SEGS) for _ in range(d))
    if rng.random() < 0.15:
        p += "/"
    return p


def gen_priv(rng, names, nonascii=False, upper_rule=True):
    path = gen_path(rng)
    if rng.random() < 0.08:
        path = path.lstrip("/")                 # no leading slash: can never be a prefix of a request path
    if upper_rule and rng.random() < 0.35:
        path = recase(rng, path)
    if nonascii and rng.random() < 0.5:
        path = rng.choice([path + "/" + rng.choice(NONASCII), path + "/" + KELVIN, "/" + KELVIN])
    q = None
    r = rng.random()
    if r < 0.55:
        q = []
        for _ in range(rng.choice([0, 1, 1, 2, 2, 3])):
            k = rng.choice(QKEYS)
            v = rng.choice(QVALS)
            if rng.random() < 0.06:
                k = ""                              # a rule on the empty key can never be satisfied
            if rng.random() < 0.3:
                k = recase(rng, k)
            if rng.random() < 0.3:
                v = recase(rng, v)
            if nonascii and rng.random() < 0.3:
                k = rng.choice([k + rng.choice(NONASCII), KELVIN])
            if nonascii and rng.random() < 0.3:
                v = rng.choice([v + rng.choice(NONASCII), KELVIN])
            q.append((k, v))
    return {"name": rng.choice(names), "path": path, "q": q}


def gen_ident(rng, names):
    i = {"name": rng.choice(names), "userName": None, "groupName": None, "exePath": None, "processName": None}
    for f, pool in (("userName", USERS), ("groupName", GROUPS), ("exePath", EXES), ("processName", PROCS)):
        if rng.random() < 0.4:
            i[f] = rng.choice(pool)
    return i


def gen_doc(rng, nonascii=False, allow_dups=True, malformed=False):
    names = list(NAMES)
    if rng.random() < 0.2:
        names += ODD_NAMES
    if not allow_dups:
        rng.shuffle(names)
    def pick_names(n):
        if allow_dups:
            return None
        return names[:n]
    n_p, n_r, n_i, n_a = (rng.choice([0, 1, 2, 2, 3, 4]) for _ in range(4))
    ps = [gen_priv(rng, names, nonascii) for _ in range(n_p)]
    rs = [{"name": rng.choice(names), "privileges": [rng.choice(names) for _ in range(rng.choice([0, 1, 1, 2, 3]))]} for _ in range(n_r)]
    ids = [gen_ident(rng, names) for _ in range(n_i)]
    ras = [{"role": rng.choice(names), "identities": [rng.choice(names) for _ in range(rng.choice([0, 1, 1, 2, 3]))]} for _ in range(n_a)]
    if not allow_dups:
        for coll in (ps, rs, ids):
            pool = list(names)
            rng.shuffle(pool)
            for x, n in zip(coll, pool):
                x["name"] = n
            del coll[len(pool):]
        for p in ps:
            if p["q"]:
                seen, q2 = set(), []
                for k, v in p["q"]:
                    if ascii_lower(k) not in seen:
                        seen.add(ascii_lower(k))
                        q2.append((k, v))
                p["q"] = q2
    # make references mostly resolvable so that the identity branch is reached
    if ps and rs and rng.random() < 0.85:
        for r in rs:
            if rng.random() < 0.85:
                r["privileges"].insert(rng.randrange(len(r["privileges"]) + 1), rng.choice(ps)["name"])
    if rs and ras and rng.random() < 0.85:
        for a in ras:
            if rng.random() < 0.85:
                a["role"] = rng.choice(rs)["name"]
            if ids and rng.random() < 0.85:
                a["identities"].insert(rng.randrange(len(a["identities"]) + 1), rng.choice(ids)["name"])
    rules = {"privileges": ps, "roles": rs, "identities": ids, "roleAssignments": ras}
    mode = rng.choice(["enforce", "enforce", "enforce", "audit", "audit", "disabled"])
    default = rng.choice(["allow", "deny"])
    if rng.random() < 0.25 or malformed:
        mode = rng.choice(MODES)
        default = rng.choice(DEFAULTS)
    doc = {"defaultAccess": default, "mode": mode, "id": "x", "rules": rules}
    if malformed:
        r = rng.random()
        if r < 0.3:
            doc["rules"] = None
        elif r < 0.9:
            for k in rng.sample(list(rules), rng.choice([1, 1, 2, 3])):
                rules[k] = None
    return doc


def asciiize(t):
    """the ASCII request text that a rule string can match: KELVIN SIGN lower-cases to 'k'"""
    t = t.replace(KELVIN, "k")
    return t if t.isascii() else None


def gen_url_for(rng, doc):
    """(url text) aimed at the document's privileges: often a match, often a near miss"""
    s = sections(doc)
    ps = s[0] if s else []
    base = rng.choice(ps) if ps and rng.random() < 0.85 else None
    if base is not None and rng.random() < 0.6:
        # prefer a privilege that some assigned role lists
        assigned_roles = {a["role"] for a in s[3]}
        listed = {n for r in s[1] if r["name"] in assigned_roles for n in r["privileges"]}
        cand = [p for p in ps if p["name"] in listed]
        if cand:
            base = rng.choice(cand)
    if base is not None and asciiize(base["path"]) is not None:
        path = asciiize(base["path"])
        r = rng.random()
        if r < 0.35:
            path += rng.choice(["", "/", "/x", "x", "/" + rng.choice(PATH_SEGS)])
        elif r < 0.45:
            path = path[:-1]                      # one byte short of the rule's path
        elif r < 0.5:
            path = gen_path(rng)
    else:
        path = gen_path(rng)
    if not path.startswith("/"):
        path = "/" + path
    if rng.random() < 0.5:
        path = recase(rng, path)
    pairs = []
    if base is not None and base.get("q"):
        for k, v in base["q"]:
            if asciiize(k) is None or asciiize(v) is None:
                k, v = (rng.choice(QKEYS), rng.choice(QVALS))
            k, v = asciiize(k), asciiize(v)
            r = rng.random()
            if r < 0.12:
                continue                          # drop a required parameter
            if r < 0.22:
                v = rng.choice(QVALS)             # wrong value
            if r < 0.30:
                pairs.append((k, rng.choice(QVALS)))   # an earlier occurrence with another value
            if rng.random() < 0.4:
                k = recase(rng, k)
            if rng.random() < 0.4:
                v = recase(rng, v)
            pairs.append((k, v))
    for _ in range(rng.choice([0, 0, 1, 2])):
        pairs.insert(rng.randrange(len(pairs) + 1), (rng.choice(QKEYS + ["", "com", "compx"]), rng.choice(QVALS + ["a=b", "="])))
    if rng.random() < 0.3:
        rng.shuffle(pairs)
    parts = []
    for k, v in pairs:
        r = rng.random()
        if v == "" and r < 0.5:
            parts.append(k)                       # valueless key
        else:
            parts.append(k + "=" + v)
    if rng.random() < 0.1:
        parts.insert(rng.randrange(len(parts) + 1), "")     # "&&"
    url = path
    if parts or rng.random() < 0.1:
        url += "?" + "&".join(parts)
    if rng.random() < 0.05:
        url += "#frag?x=1&comp=goalstate"
    if rng.random() < 0.1:
        url = "http://168.63.129.16" + url
    return url


def variant_exe(rng, e):
    """a different spelling of the same path, or a different path"""
    r = rng.random()
    if r < 0.2 and e:
        return e + "/"
    if r < 0.35 and "/" in e[1:]:
        i = e.index("/", 1)
        return e[:i] + "//" + e[i + 1:]
    if r < 0.5 and "/" in e[1:]:
        i = e.index("/", 1)
        return e[:i] + "/." + e[i:]
    if r < 0.6 and "/" in e[1:]:
        i = e.rindex("/")
        return e[:i] + "/../" + e[i + 1:]
    if r < 0.7:
        return e.lstrip("/") if e.startswith("/") else "./" + e
    if r < 0.8:
        return recase(rng, e)
    return e


def gen_claims_for(rng, doc, elevated=None):
    s = sections(doc)
    ids = s[2] if s else []
    c = {"u": rng.choice(USERS), "g": [rng.choice(GROUPS) for _ in range(rng.choice([0, 1, 2, 3]))],
         "p": rng.choice(PROCS).encode(), "e": rng.choice(EXES).encode(),
         "el": rng.random() < 0.5 if elevated is None else elevated}
    if ids and rng.random() < 0.9:
        i = rng.choice(ids)
        assigned = {n for a in s[3] for n in a["identities"]}
        cand = [x for x in ids if x["name"] in assigned]
        if cand and rng.random() < 0.8:
            i = rng.choice(cand)
        # each stated attribute: mostly the identity's own value, sometimes a near miss (other letter
        # case, one character more), sometimes unrelated
        def near(v):
            r = rng.random()
            if r < 0.82:
                return v
            if r < 0.92:
                return rng.choice([v.upper(), v.capitalize(), v.swapcase(), recase(rng, v)])
            return rng.choice([v + "x", v[:-1], " " + v])
        if i["userName"] is not None and rng.random() < 0.9:
            c["u"] = near(i["userName"])
        if i["groupName"] is not None and rng.random() < 0.9:
            c["g"].insert(rng.randrange(len(c["g"]) + 1), near(i["groupName"]))
        if i["processName"] is not None and rng.random() < 0.9:
            c["p"] = near(i["processName"]).encode()
        if i["exePath"] is not None and rng.random() < 0.85:
            c["e"] = variant_exe(rng, i["exePath"]).encode()
    if rng.random() < 0.03:
        c["e"] = c["e"] + b"\xff"                 # not UTF-8
    if rng.random() < 0.03:
        c["p"] = c["p"] + b"\xfe"
    return c


def gen_targeted(rng, doc):
    """(claims, url) built along one complete grant chain of the document (assignment -> defined role ->
    defined privilege, and a defined identity of that assignment): the URL satisfies the privilege
    exactly, the caller carries every stated attribute of the identity -- then, more often than not,
    exactly one stated attribute is changed slightly (letter case, one character, another spelling of
    the same executable path).  None when the document has no complete chain."""
    s = sections(doc)
    if s is None:
        return None
    ps, rs, ids, ras = s
    chains = []
    for ra in ras:
        for r in rs:
            if r["name"] != ra["role"]:
                continue
            for p in ps:
                if p["name"] not in r["privileges"]:
                    continue
                path = asciiize(p["path"])
                if path is None or not path.startswith("/"):
                    continue
                q = [(asciiize(k), asciiize(v)) for k, v in (p.get("q") or [])]
                if any(k is None or v is None or k == "" or "&" in k + v or "=" in k for k, v in q):
                    continue
                for i in ids:
                    if i["name"] in ra["identities"]:
                        chains.append((p, path, q, i))
    if not chains:
        return None
    p, path, q, i = rng.choice(chains)
    path += rng.choice(["", "", "/", "/x"])
    if rng.random() < 0.5:
        path = recase(rng, path)
    parts = [(recase(rng, k) if rng.random() < 0.5 else k) + "=" + (recase(rng, v) if rng.random() < 0.5 else v) for k, v in q]
    if rng.random() < 0.3:
        parts.append(rng.choice(["zz=1", "zz", "comp2=x"]))
    url = path + ("?" + "&".join(parts) if parts else "")
    c = {"u": rng.choice(USERS), "g": [rng.choice(GROUPS) for _ in range(rng.choice([0, 1, 2]))],
         "p": rng.choice(PROCS).encode(), "e": rng.choice(EXES).encode(), "el": rng.random() < 0.5}
    if i["userName"] is not None:
        c["u"] = i["userName"]
    if i["groupName"] is not None:
        c["g"].insert(rng.randrange(len(c["g"]) + 1), i["groupName"])
    if i["processName"] is not None:
        c["p"] = i["processName"].encode()
    if i["exePath"] is not None:
        c["e"] = i["exePath"].encode()
    stated = [f for f in ("userName", "groupName", "processName", "exePath") if i[f] is not None]
    if stated and rng.random() < 0.6:
        f = rng.choice(stated)
        v = i[f]
        alt = rng.choice([v.upper(), v.swapcase(), v.capitalize(), v + "x", v[:-1], v + " "])
        if f == "userName":
            c["u"] = alt
        elif f == "groupName":
            c["g"] = [alt if g == v else g for g in c["g"]]
        elif f == "processName":
            c["p"] = alt.encode()
        else:
            c["e"] = rng.choice([alt, variant_exe(rng, v), variant_exe(rng, v)]).encode()
    return c, url


# ---- metamorphic variants --------------------------------------------------------------------
def permute_doc(rng, doc):
    """same document with every listing shuffled"""
    d = json.loads(json.dumps(doc))              # deep copy (tuples become lists)
    r = d.get("rules")
    if r:
        for k in ("privileges", "roles", "identities", "roleAssignments"):
            if r.get(k) is not None:
                rng.shuffle(r[k])
        for p in r.get("privileges") or []:
            if p.get("q") is not None:
                p["q"] = [tuple(x) for x in p["q"]]
                rng.shuffle(p["q"])
        for x in r.get("roles") or []:
            rng.shuffle(x["privileges"])
        for x in r.get("roleAssignments") or []:
            rng.shuffle(x["identities"])
    return d


def normalize_doc(doc):
    d = json.loads(json.dumps(doc))
    r = d.get("rules")
    if r:
        for p in r.get("privileges") or []:
            if p.get("q") is not None:
                p["q"] = [tuple(x) for x in p["q"]]
    return d


def recase_doc(rng, doc, how=None):
    """same document with the ASCII letter case of every privilege path / query key / query value changed"""
    d = normalize_doc(doc)
    f = {"lower": ascii_lower,
         "upper": lambda s: "".join(chr(ord(ch) - 32) if "a" <= ch <= "z" else ch for ch in s),
         None: lambda s: recase(rng, s)}[how]
    r = d.get("rules")
    if r:
        for p in r.get("privileges") or []:
            p["path"] = f(p["path"])
            if p.get("q") is not None:
                p["q"] = [(f(k), f(v)) for k, v in p["q"]]
    return d


def recase_url(rng, url):
    """change the ASCII letter case of path and query (not of scheme/host/fragment)"""
    m = re.match(r"^([A-Za-z][A-Za-z0-9+.-]*://[^/?#]*)?([^#]*)(#.*)?$", url)
    head, mid, frag = m.group(1) or "", m.group(2), m.group(3) or ""
    return head + recase(rng, mid) + frag
