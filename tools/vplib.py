"""Shared machinery for the per-property checks (see DESIGN.md 1.3 / 1.4).

A check is a Python module tools/checks/cNN.py exposing `run(ctx)`.  This library gives it:
  * regenerated constants (tools/gen_consts.py) and a cached, locked, full-.vo Coq build of the
    property's dependency cone, with Print Assumptions / forbidden-word checking;
  * evaluation of the model's executable definitions on generated cases by vm_compute in coqc
    (sharded) and a parser for Coq's printed terms;
  * cargo builds of the harness crates against /repo's working tree with the hook cfg on;
  * the evidence writer and the violation protocol (replay files, known findings).
"""
import fcntl
import glob
import hashlib
import json
import os
import random
import re
import shutil
import subprocess
import sys
import time
from concurrent.futures import ThreadPoolExecutor

VERIF = os.path.normpath(os.path.join(os.path.dirname(os.path.abspath(__file__)), ".."))
REPO = os.environ.get("VERIF_REPO", "/repo")
COQ = os.path.join(VERIF, "coq")
SCRATCH_ROOT = os.path.join(VERIF, ".scratch")
TARGET_DIR = os.path.join(VERIF, ".target")
CFG = "azure_guestproxyagent_verif"

FORBIDDEN = re.compile(
    r"\b(Admitted|admit|Axiom|Axioms|Parameter|Parameters|Conjecture|Conjectures|Hypothesis|"
    r"Hypotheses|Variable|Variables|Admit Obligations|bypass_check|native_compute)\b|"
    r"Unset\s+Guard|Unset\s+Positivity|Unset\s+Universe|type-in-type|impredicative-set")

KERNEL_TRUST = [
    "Coq 8.16.1 kernel (coqc; coqchk in the thorough tier); vm_compute used, native_compute not used",
    "tools/gen_consts.py (constants translator, regular expressions over the Rust/C sources)",
    "tools/vplib.py + the property's check module and Rust/C driver (correspondence harness, canonicalisation)",
    "the hand-written Gallina model of the property (tied to the code only by the correspondence run)",
]


class Violation(Exception):
    def __init__(self, msg, replay=None, no_input=False):
        super().__init__(msg)
        self.replay = replay or {}
        self.no_input = no_input


# ----------------------------------------------------------------------------------------
# context
# ----------------------------------------------------------------------------------------
class Ctx:
    def __init__(self, pid, tier, seed):
        self.pid = pid
        self.tier = tier
        self.seed = seed
        self.rng = random.Random(seed)
        self.t0 = time.time()
        self.scratch = os.path.join(SCRATCH_ROOT, "%s.%d" % (pid, os.getpid()))
        os.makedirs(self.scratch, exist_ok=True)
        self.notes = []
        self.coverage = {}
        self.assumptions = []
        self.violations = []      # list of dict(msg, replay_path, no_input)
        self.known = []           # KNOWN-FINDING lines printed
        self.obligations = 0
        self.discharged = 0
        self.theorems = []

    @property
    def quick(self):
        return self.tier == "quick"

    def log(self, *a):
        print("[%s %6.1fs]" % (self.pid, time.time() - self.t0), *a, flush=True)

    def cleanup(self):
        shutil.rmtree(self.scratch, ignore_errors=True)
        try:
            os.rmdir(SCRATCH_ROOT)
        except OSError:
            pass


# ----------------------------------------------------------------------------------------
# subprocess helpers
# ----------------------------------------------------------------------------------------
def _big_stack():
    # coqc parses a long list literal (e.g. a 60 KB request target) recursively: lift the soft stack limit
    import resource
    try:
        soft, hard = resource.getrlimit(resource.RLIMIT_STACK)
        resource.setrlimit(resource.RLIMIT_STACK, (hard, hard))
    except Exception:
        pass


def sh(cmd, timeout=600, cwd=None, env=None, input=None, check=False, big_stack=False):
    e = dict(os.environ)
    e.setdefault("CARGO_NET_OFFLINE", "true")
    if env:
        e.update(env)
    try:
        p = subprocess.run(cmd, cwd=cwd, env=e, input=input, capture_output=True, text=True,
                           timeout=timeout, shell=isinstance(cmd, str), preexec_fn=_big_stack if big_stack else None)
        rc, out, err = p.returncode, p.stdout, p.stderr
    except subprocess.TimeoutExpired as ex:
        rc = 124
        out = ex.stdout.decode() if isinstance(ex.stdout, bytes) else (ex.stdout or "")
        err = (ex.stderr.decode() if isinstance(ex.stderr, bytes) else (ex.stderr or "")) + "\nTIMEOUT after %ss" % timeout
    if check and rc != 0:
        raise RuntimeError("command failed (%d): %s\n%s\n%s" % (rc, cmd, out[-4000:], err[-4000:]))
    return rc, out, err


class Lock:
    def __init__(self, name, shared=False):
        os.makedirs(SCRATCH_ROOT, exist_ok=True)
        self.path = os.path.join(VERIF, ".lock." + name)
        self.shared = shared

    def __enter__(self):
        self.f = open(self.path, "a")
        fcntl.flock(self.f, fcntl.LOCK_SH if self.shared else fcntl.LOCK_EX)
        return self

    def __exit__(self, *a):
        fcntl.flock(self.f, fcntl.LOCK_UN)
        self.f.close()


# ----------------------------------------------------------------------------------------
# constants + Coq build
# ----------------------------------------------------------------------------------------
def gen_consts(ctx):
    rc, out, err = sh([sys.executable, os.path.join(VERIF, "tools", "gen_consts.py")], timeout=60)
    ctx.log(out.strip() or err.strip())
    if rc != 0:
        raise Violation("constants translator failed: %s" % err.strip(),
                        {"kind": "translator", "detail": err.strip()}, no_input=True)
    # constants that could not be located in the source are pinned to the last proved values (see the
    # header of tools/gen_consts.py): not a verdict by itself -- the correspondence run decides
    try:
        st = json.load(open(os.path.join(COQ, "Generated", "consts_status.json")))
    except Exception:
        st = {}
    pinned = list(st.get("pinned") or [])
    if st.get("translator_error"):
        pinned.append("WHOLE TRANSLATOR: " + st["translator_error"])
    if pinned:
        ctx.coverage["constants_pinned_not_located"] = pinned
        ctx.assumptions.append("%d constant(s) could not be located in the current source and are pinned to the last "
                               "proved values; for them the theorems are tied to the code by the correspondence run only: %s"
                               % (len(pinned), "; ".join(p[:160] for p in pinned[:6])))


def _refresh_makefile():
    files = []
    for root, _, names in os.walk(COQ):
        for n in names:
            if n.endswith(".v") and not n.startswith("."):
                files.append(os.path.relpath(os.path.join(root, n), COQ))
    files.sort()
    header = open(os.path.join(COQ, "_CoqProject.in")).read()
    text = header + "\n".join(files) + "\n"
    cp = os.path.join(COQ, "_CoqProject")
    old = open(cp).read() if os.path.exists(cp) else None
    if old != text or not os.path.exists(os.path.join(COQ, "Makefile")):
        with open(cp, "w") as f:
            f.write(text)
        sh(["coq_makefile", "-f", "_CoqProject", "-o", "Makefile"], cwd=COQ, check=True)


def coq_make(ctx, targets, timeout=900):
    """Full .vo build (never -vos) of the given targets and their dependency cone."""
    with Lock("coq"):
        _refresh_makefile()
        rc, out, err = sh(["make", "-j16"] + targets, cwd=COQ, timeout=timeout)
    return rc == 0, out + err


def forbidden_scan():
    bad = []
    for path in glob.glob(os.path.join(COQ, "**", "*.v"), recursive=True):
        txt = open(path).read()
        txt_nc = re.sub(r"\(\*.*?\*\)", "", txt, flags=re.S)
        for i, line in enumerate(txt_nc.split("\n"), 1):
            m = FORBIDDEN.search(line)
            if m:
                # `Variable`/`Hypothesis`/`Context` inside a Section are fine; we only allow Context.
                bad.append("%s:%d: %s" % (os.path.relpath(path, COQ), i, m.group(0)))
    return bad


def allowlist():
    p = os.path.join(VERIF, "tools", "assumptions_allowlist.txt")
    if not os.path.exists(p):
        return set()
    return {l.strip() for l in open(p) if l.strip() and not l.startswith("#")}


def theorems_of(prop_file):
    txt = open(prop_file).read()
    txt = re.sub(r"\(\*.*?\*\)", "", txt, flags=re.S)
    return re.findall(r"^\s*Theorem\s+([A-Za-z0-9_']+)", txt, flags=re.M)


def check_proofs(ctx, pid=None, extra_targets=(), extra_props=()):
    """Build Props/<pid>.vo, verify assumptions of every pinned theorem.  Returns (ok, detail).
    Sets ctx.obligations / ctx.discharged / ctx.theorems.
    extra_props: further Props/<name>.v files whose pinned theorems are built, probed and counted with this
    property's (e.g. ["System"], the composed request-path model checked inside C01)."""
    pid = pid or ctx.pid
    prop_v = os.path.join(COQ, "Props", pid + ".v")
    thms = theorems_of(prop_v)
    for p in extra_props:
        thms = thms + theorems_of(os.path.join(COQ, "Props", p + ".v"))
    extra_targets = list(extra_targets) + ["Props/%s.vo" % p for p in extra_props if "Props/%s.vo" % p not in extra_targets]
    ctx.theorems = thms
    ctx.obligations = len(thms)
    ctx.discharged = 0
    bad = forbidden_scan()
    if bad:
        return False, "forbidden constructs in the development: " + "; ".join(bad[:10])
    ok, log = coq_make(ctx, ["Props/%s.vo" % pid] + list(extra_targets))
    if not ok:
        # which theorem failed? best effort from the log
        m = re.search(r'File "([^"]+)", line (\d+)', log)
        where = "%s:%s" % (m.group(1), m.group(2)) if m else "?"
        return False, "Coq build failed at %s: %s" % (where, log[-1500:])
    # assumptions
    probe = os.path.join(ctx.scratch, "Assm_%s.v" % pid)
    with open(probe, "w") as f:
        f.write("From GPA Require Import %s.\n" % pid)
        for p in extra_props:
            f.write("From GPA.Props Require Import %s.\n" % p)
        for t in thms:
            f.write('Goal True. idtac "@@THM %s". Abort.\nPrint Assumptions %s.\n' % (t, t))
    rc, out, err = sh(["coqc", "-noglob", "-Q", COQ, "GPA", probe], timeout=900)
    if rc != 0 and "inconsistent assumptions" in (out + err):
        time.sleep(5)
        ok2, _ = coq_make(ctx, ["Props/%s.vo" % pid] + list(extra_targets))
        rc, out, err = sh(["coqc", "-noglob", "-Q", COQ, "GPA", probe], timeout=900)
    if rc != 0:
        return False, "assumption probe failed: " + (out + err)[-1500:]
    allow = allowlist()
    blocks = re.split(r"@@THM (\S+)", out)
    seen = {}
    for i in range(1, len(blocks), 2):
        name, body = blocks[i], blocks[i + 1]
        if "Closed under the global context" in body:
            seen[name] = []
        else:
            axs = re.findall(r"^([A-Za-z0-9_.']+)\s*:", body, flags=re.M)
            seen[name] = axs
    problems = []
    for t in thms:
        if t not in seen:
            problems.append("%s: no Print Assumptions output" % t)
            continue
        notallowed = [a for a in seen[t] if a not in allow]
        if notallowed:
            problems.append("%s depends on non-allowlisted axioms %s" % (t, notallowed))
        else:
            ctx.discharged += 1
    ctx.coverage["axioms_used"] = sorted({a for v in seen.values() for a in v})
    if problems:
        return False, "; ".join(problems)
    if not ctx.quick and os.environ.get("VERIF_SKIP_COQCHK") != "1":
        # independent re-check of the compiled cone (thorough tier only; a minute or more)
        okc, outc = coqchk(ctx, pid)
        ctx.coverage["coqchk"] = {"ok": okc, "tail": outc[-600:]}
        if not okc:
            return False, "coqchk rejected the compiled development: " + outc[-800:]
    return True, "%d theorems, all closed / allowlisted" % len(thms)


def coqchk(ctx, pid=None):
    pid = pid or ctx.pid
    rc, out, err = sh(["coqchk", "-silent", "-o", "-Q", COQ, "GPA", "GPA.Props.%s" % pid], timeout=1800)
    return rc == 0, (out + err)[-3000:]


# ----------------------------------------------------------------------------------------
# evaluating the model inside Coq
# ----------------------------------------------------------------------------------------
def cb(b):
    """python bytes/str -> Coq `list N` literal"""
    if isinstance(b, str):
        b = b.encode("utf-8")
    if len(b) == 0:
        return "(@nil N)"
    return "[" + ";".join(str(x) for x in b) + "]%N"


def cbool(b):
    return "true" if b else "false"


def clist(items, ty=None):
    if not items:
        return "(@nil %s)" % ty if ty else "[]"
    return "[" + "; ".join(items) + "]"


def copt(x, ty=None):
    if x is None:
        return "(@None %s)" % ty if ty else "None"
    return "(Some %s)" % x


def cN(n):
    return "%d%%N" % n


_TOK = re.compile(r'\s*(?:(\d+)|("(?:[^"]|"")*")|([A-Za-z_][A-Za-z0-9_.\']*)|(.))')


def parse_coq(text):
    """Parse a printed Coq term built from numbers, strings, constructors (applied or not),
    tuples and lists into Python: numbers -> int, strings -> str, lists -> list, tuples -> tuple,
    true/false -> bool, None -> None, `Some x` -> ('Some', x), `C a b` -> ('C', a, b), C -> 'C'."""
    text = re.sub(r"%[A-Za-z_]+", "", text)
    toks = []
    pos = 0
    while pos < len(text):
        m = _TOK.match(text, pos)
        if not m:
            break
        pos = m.end()
        if m.group(1) is not None:
            toks.append(("n", int(m.group(1))))
        elif m.group(2) is not None:
            toks.append(("s", m.group(2)[1:-1].replace('""', '"')))
        elif m.group(3) is not None:
            toks.append(("i", m.group(3)))
        elif m.group(4) is not None and m.group(4).strip():
            toks.append(("p", m.group(4)))
    idx = [0]

    def peek():
        return toks[idx[0]] if idx[0] < len(toks) else ("e", None)

    def eat():
        t = peek()
        idx[0] += 1
        return t

    def atom():
        k, v = eat()
        if k == "n":
            return v
        if k == "s":
            return v
        if k == "i":
            if v == "true":
                return True
            if v == "false":
                return False
            if v == "None":
                return None
            if v == "nil":
                return []
            return v
        if k == "p" and v == "-":
            k2, v2 = eat()
            return -v2
        if k == "p" and v == "[":
            items = []
            if peek() == ("p", "]"):
                eat()
                return items
            while True:
                items.append(expr())
                k2, v2 = eat()
                if (k2, v2) == ("p", "]"):
                    return items
                if (k2, v2) != ("p", ";"):
                    raise ValueError("list: unexpected %r" % (v2,))
        if k == "p" and v == "(":
            items = [expr()]
            while True:
                k2, v2 = eat()
                if (k2, v2) == ("p", ")"):
                    break
                if (k2, v2) != ("p", ","):
                    raise ValueError("tuple: unexpected %r" % (v2,))
                items.append(expr())
            return items[0] if len(items) == 1 else tuple(items)
        raise ValueError("unexpected token %r %r" % (k, v))

    def expr():
        k, v = peek()
        if k == "i" and v not in ("true", "false", "None", "nil"):
            eat()
            args = []
            while True:
                k2, v2 = peek()
                if k2 in ("n", "s", "i") or (k2 == "p" and v2 in ("[", "(")):
                    args.append(atom())
                else:
                    break
            return (v,) + tuple(args) if args else v
        return atom()

    r = expr()
    return r


def coq_eval(ctx, requires, exprs, prelude="", shard=200, timeout=600, name="cases"):
    """Evaluate each Coq expression by vm_compute and return the parsed results (in order).
    `requires` e.g. 'From GPA Require Import Health.'  Shards over parallel coqc processes."""
    if not exprs:
        return []
    shards = [exprs[i:i + shard] for i in range(0, len(exprs), shard)]

    def run(ix_sh):
        ix, sh_exprs = ix_sh
        path = os.path.join(ctx.scratch, "%s_%d.v" % (name, ix))
        with open(path, "w") as f:
            f.write(requires + "\n")
            f.write("Set Printing Width 1000000.\nSet Printing Depth 10000000.\n")
            f.write("Unset Printing Notations.\n" if False else "")
            f.write(prelude + "\n")
            for j, e in enumerate(sh_exprs):
                f.write('Goal True. idtac "@@CASE %d". Abort.\nEval vm_compute in (%s).\n' % (j, e))
        rc, out, err = sh(["coqc", "-noglob", "-Q", COQ, "GPA", path], timeout=timeout, big_stack=True)
        if rc != 0:
            raise RuntimeError("coqc failed on %s: %s" % (path, (out + err)[-3000:]))
        res = []
        parts = re.split(r"@@CASE (\d+)\n", out)
        for i in range(1, len(parts), 2):
            body = parts[i + 1]
            m = re.search(r"=\s*(.*?)\n\s*:\s", body, flags=re.S)
            if not m:
                raise RuntimeError("cannot find value in coqc output: %r" % body[:500])
            res.append(parse_coq(m.group(1)))
        if len(res) != len(sh_exprs):
            raise RuntimeError("coqc output count mismatch %d vs %d" % (len(res), len(sh_exprs)))
        return res

    # Evaluators read the compiled .vo files without holding the build lock (a long evaluation
    # must not block other checks' builds).  If a concurrent check rebuilt part of the development
    # meanwhile, coqc reports inconsistent / missing objects: wait for the build lock and retry.
    last = None
    for attempt in range(4):
        try:
            with ThreadPoolExecutor(max_workers=min(int(os.environ.get("VERIF_COQ_JOBS", "8")), len(shards))) as ex:
                chunks = list(ex.map(run, enumerate(shards)))
            return [r for c in chunks for r in c]
        except RuntimeError as e:
            last = e
            msg = str(e)
            if not any(k in msg for k in ("inconsistent assumptions", "Cannot find a physical path", "Unable to locate library", "Compiled library", "bad version number", "No such file")):
                raise
            time.sleep(3 + 5 * attempt)
            with Lock("coq"):
                _refresh_makefile()
                sh(["make", "-j8"], cwd=COQ, timeout=3000)
    raise last


# ----------------------------------------------------------------------------------------
# cargo
# ----------------------------------------------------------------------------------------
def cargo_build(ctx, crate, bins, release=False, timeout=1500, extra_env=None):
    """Build harness binaries against /repo's current working tree, hooks on. Returns dict bin->path."""
    crate_dir = os.path.join(VERIF, crate)
    lock_src = os.path.join(REPO, "Cargo.lock")
    lock_dst = os.path.join(crate_dir, "Cargo.lock")
    if not os.path.exists(lock_dst):
        shutil.copy(lock_src, lock_dst)
    cmd = ["cargo", "build", "--offline"]
    if release:
        cmd.append("--release")
    for b in bins:
        cmd += ["--bin", b]
    env = {"CARGO_TARGET_DIR": TARGET_DIR, "CARGO_NET_OFFLINE": "true"}
    if extra_env:
        env.update(extra_env)
    with Lock("cargo"):
        rc, out, err = sh(cmd, cwd=crate_dir, timeout=timeout, env=env)
        if rc != 0 and "[features]" in open(os.path.join(crate_dir, "Cargo.toml")).read():
            # The drivers of all checks are compiled inside one crate (hook H6), each behind its own cargo
            # feature.  If the crate no longer builds, another check's driver may be the one that broke:
            # retry with only the drivers this check needs.
            feats = ",".join("drv_" + b for b in bins)
            cmd2 = ["cargo", "build", "--offline", "--no-default-features", "--features", feats]
            if release:
                cmd2.append("--release")
            for b in bins:
                cmd2 += ["--bin", b]
            rc2, out2, err2 = sh(cmd2, cwd=crate_dir, timeout=timeout, env=env)
            if rc2 == 0:
                ctx.notes.append("the harness crate did not build with all drivers (another check's driver no longer "
                                 "compiles against the current /repo); built with only: " + feats)
                ctx.log("harness: full build failed, built with features " + feats)
                rc, out, err = rc2, out2, err2
    if rc != 0:
        raise Violation("harness build failed (the code no longer offers what the correspondence "
                        "harness calls): " + err[-2500:],
                        {"kind": "harness-build", "crate": crate, "bins": list(bins), "stderr": err[-4000:]},
                        no_input=True)
    prof = "release" if release else "debug"
    return {b: os.path.join(TARGET_DIR, prof, b) for b in bins}


# ----------------------------------------------------------------------------------------
# evidence + verdict
# ----------------------------------------------------------------------------------------
def known_findings(pid):
    p = os.path.join(VERIF, "known_findings.json")
    if not os.path.exists(p):
        return []
    data = json.load(open(p))
    return [f for f in data.get("findings", []) if f.get("property") == pid and f.get("status") == "known"]


def write_replay(ctx, payload):
    d = os.path.join(VERIF, "replays", ctx.pid)
    os.makedirs(d, exist_ok=True)
    h = hashlib.sha1(json.dumps(payload, sort_keys=True, default=str).encode()).hexdigest()[:10]
    path = os.path.join(d, "%s_%s.json" % (ctx.tier, h))
    payload = dict(payload)
    payload.setdefault("property", ctx.pid)
    payload.setdefault("seed", ctx.seed)
    payload.setdefault("tier", ctx.tier)
    payload.setdefault("replay_cmd", "VERIF_SEED=%d tools/vp check %s --tier %s" % (ctx.seed, ctx.pid, ctx.tier))
    with open(path, "w") as f:
        json.dump(payload, f, indent=1, default=str)
    return os.path.relpath(path, VERIF)


def violation(ctx, msg, replay, no_input=False):
    path = write_replay(ctx, dict(replay, message=msg, no_failing_input_found=no_input))
    ctx.violations.append({"msg": msg, "replay": path, "no_input": no_input})
    ctx.log("violation: " + msg)


def known_finding(ctx, what):
    line = "KNOWN-FINDING: property=%s %s" % (ctx.pid, what)
    if line not in ctx.known:
        ctx.known.append(line)


def write_evidence(ctx, level="proof"):
    cov = dict(ctx.coverage)
    cov.setdefault("obligations", ctx.obligations)
    cov.setdefault("discharged", ctx.discharged)
    cov.setdefault("checker_cmd", "make -C coq Props/%s.vo (coq_makefile, full .vo build) + Print Assumptions probe via coqc" % ctx.pid)
    cov.setdefault("trusted_base", KERNEL_TRUST)
    cov.setdefault("theorems", ctx.theorems)
    cov.setdefault("samples", [])
    cov.setdefault("evaluations", 0)
    cov.setdefault("distinct_nontrivial", 0)
    cov["known_findings_reported"] = ctx.known
    ev = {
        "property_id": ctx.pid,
        "tier": ctx.tier,
        "seed": ctx.seed,
        "level": level,
        "coverage": cov,
        "assumptions": ctx.assumptions,
        "wall_s": round(time.time() - ctx.t0, 2),
        "violations": len(ctx.violations),
        "notes": ctx.notes,
    }
    os.makedirs(os.path.join(VERIF, "evidence"), exist_ok=True)
    with open(os.path.join(VERIF, "evidence", ctx.pid + ".json"), "w") as f:
        json.dump(ev, f, indent=1, default=str)


def finish(ctx):
    write_evidence(ctx)
    for k in ctx.known:
        print(k)
    if ctx.violations:
        for v in ctx.violations:
            print("VIOLATION property=%s replay=%s%s" % (ctx.pid, v["replay"], " no-failing-input-found" if v["no_input"] else ""))
        return 1
    print("OK property=%s tier=%s obligations=%d discharged=%d wall=%.1fs" % (
        ctx.pid, ctx.tier, ctx.obligations, ctx.discharged, time.time() - ctx.t0))
    return 0


def run_lines(binary, lines, timeout=600, env=None, cwd=None):
    """Feed newline-terminated script lines to a harness binary, return output lines."""
    rc, out, err = sh([binary], input="\n".join(lines) + "\n", timeout=timeout, env=env, cwd=cwd)
    if rc != 0:
        raise RuntimeError("%s exited %d: %s" % (binary, rc, err[-2000:]))
    return out.split("\n")[:-1] if out.endswith("\n") else out.split("\n")
