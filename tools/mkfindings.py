#!/usr/bin/env python3
"""Merge known_findings.d/*.json (one list per property) into known_findings.json (committed;
read, never written, by the checks at run time)."""
import glob, json, os
V = os.path.normpath(os.path.join(os.path.dirname(os.path.abspath(__file__)), ".."))
out = []
for f in sorted(glob.glob(os.path.join(V, "known_findings.d", "*.json"))):
    out += json.load(open(f))
json.dump({"findings": out}, open(os.path.join(V, "known_findings.json"), "w"), indent=1)
print("known_findings.json: %d entries" % len(out))
