#!/bin/bash
# run every registered thorough check once on the unchanged tree (not a registered check)
cd "$(dirname "$0")/.."
tools/vp setup > soak_setup.log 2>&1 || { echo "setup failed"; tail -20 soak_setup.log; exit 1; }
fail=0
for id in $(python3 -c "import json; print(' '.join(c['property_id'] for c in json.load(open('MANIFEST.json'))['checks']))"); do
  t0=$(date +%s)
  out=$(VERIF_SEED=${1:-7} tools/vp check $id --tier thorough 2>&1); rc=$?
  t1=$(date +%s)
  echo "thorough $id exit=$rc wall=$((t1-t0))s $(echo "$out" | grep -E '^(VIOLATION|ERROR|KNOWN)' | head -2 | cut -c1-160 | tr '\n' ' ')"
  if [ $rc -ne 0 ]; then fail=1; echo "$out" | tail -40 > soak_thorough_fail_${id}.log; fi
done
exit $fail
