"""Shared end-to-end runner: the REAL proxy listener against mock metadata hosts (notes/E2E.md).

    import e2e
    results = e2e.run_scenarios(ctx, scenarios, timeout=600)      # list of result dicts, input order

The driver is harness/src/bin/e2e.rs (built here with vplib.cargo_build).  It is started inside a
private network namespace whose `lo` carries 127.0.0.1, 168.63.129.16, 169.254.169.254 and 10.9.8.7,
runs gpa::proxy::proxy_server::ProxyServer on a fresh SharedState::start_all() per scenario, and
talks JSON lines on stdin/stdout.  Mock hosts (plain TCP, inside the driver) listen on
    WIRESERVER = "168.63.129.16:80"   HOSTGA = "168.63.129.16:32526"   IMDS = "169.254.169.254:80"
    OTHER      = "10.9.8.7:80"        LOCAL_OTHER = "127.0.0.1:18080"   (both fall to the Default authorizer)
Nothing listens on 127.0.0.1:3080 (SELF) unless a scenario uses proxy_port 3080.

STABLE API (keep to these; everything else in this file is private):
  run_scenarios(ctx, scenarios, timeout=600, shards=None, env=None) -> [result]
  scenario(name, connections, rules=None, key=None, **knobs) -> dict      (see SCENARIO below)
  conn(requests, audit=None, local_port=None, id=None, **knobs) -> dict
  req(raw, **knobs) -> dict            raw: bytes of the request exactly as put on the wire
  audit(dest, uid=0, pid="self", is_admin=None) -> dict   dest "ip:port"; is_admin defaults to uid==0
  http_request(method, target, headers=(), body=b"", version="HTTP/1.1", chunked=None, host="x") -> bytes
  parse_http(raw) -> message dict | None ;  parse_http_all(raw) -> [message]
  upstream_messages(result, host) -> [[message per request] per accepted connection]
  statuses(result) -> [[status per response] per client connection]
  jsonable(obj) -> obj with bytes turned into {"b64": ...} (for replay files)

SCENARIO (all keys optional except connections; proxy_port is assigned 20000+index when absent)
  name            anything JSON; echoed in the result
  proxy_port      port the real listener binds on 127.0.0.1 (fresh per scenario; 3080 = self-destination)
  rules           {"wireserver"|"imds"|"hostga": AuthorizationItem JSON as the host delivers it, or None}
                  installed with KeyKeeperSharedState::set_*_rules (ComputedAuthorizationItem::from_authorization_item)
  key             {"guid":…, "key": hex, "incarnation": n}  -> update_key before the listener starts
  fail_remove     bool: verif_hooks::FAIL_REMOVE for the whole scenario
  pre_audit       [{"port": p, "audit": audit(...)}]  records present before any connection (stale records)
  replies         {host: [reply, …]}  scripted mock replies; for each complete request the first unconsumed
                  reply whose optional "match" substring occurs in the raw request is used (and consumed
                  unless "sticky"); otherwise default_reply (default: 200 OK, text/plain, body b"mock-ok").
                  reply keys: status, reason, headers [[k,v],…], body / body_b64, chunked [sizes…],
                  no_content_length, delay_ms, close (after the reply), close_without_reply, raw / raw_b64
  concurrent      bool: run all client connections at once (default: one after the other)
  ops_before / ops_after   ops run before the first / after the last connection
  timeout_ms (per response, default 10000), drain_timeout_ms (5000), scenario_timeout_ms (60000)
  status_task_ms  n: run a REAL gpa::proxy_agent_status::ProxyAgentStatusTask (interval n ms, >= 2) writing
                  <scratch>/status.<proxy_port>/status.json for the scenario; see RESULT status_json
CONNECTION  local_ip (source address, default 127.0.0.1; any 127.x.y.z works -- the audit map is keyed by PORT only, so
  127.0.0.2:P can be bound while 127.0.0.1:P is still connected), local_port (bind before connect, SO_REUSEADDR; default ephemeral), audit (record inserted
  under the local port BEFORE connecting), requests [req], pipelined (write all, then read),
  ops_before_connect, ops_before_close, timeout_ms
  reset_after_connect (bool: close abortively -- SO_LINGER{on,0}, RST -- right after the handshake; no request is
  sent; ops_before_close still run, e.g. wait_trace + snapshot; result connection has reset: true)
REQUEST     raw (bytes), ops_before, ops_after, timeout_ms, split_at + split_pause_ms (two writes)
OPS         {"op": "update_key", guid, key, incarnation} {"op": "clear_key"}
            {"op": "set_rules", "endpoint": "wireserver|imds|hostga", "item": {...}|None}
            {"op": "fail_remove", "value": bool} {"op": "insert_audit", "port", "audit"} {"op": "remove_audit", "port"}
            {"op": "summary_burst", "label", "threads": 8, "keys": 200}  conservation leg: `threads` OS threads call
              add_one_failed_connection_summary at the same instant for a never-seen key, for `keys` fresh keys (userName
              "burst-<label>-<k>"); appends a snapshot {label, burst: {adds (calls that returned Ok), keys, threads}, summary, status_json}
            {"op": "barrier", "name", "n", "timeout_ms": 60000}  rendezvous of concurrent connections: continue when n
              participants have arrived at `name` (e.g. in ops_before of each connection's request: all requests are sent at once)
            {"op": "wait_trace", "port", "lookups": n, "timeout_ms": 3000}  wait until the H1 trace shows n lookups for the
              source port and a remove event for every lookup that found a record (= the accept processing is over)
            {"op": "clear_summary"} {"op": "sleep_ms", "ms"} {"op": "snapshot", "label"} (audit map + summaries now)
            {"op": "kill_actor", "actor": "key_keeper"|"agent_status"}  needs scenario field killable: [actor, ...]:
            that actor's task then lives on a runtime of its own, which the op shuts down; afterwards every call on
            its handle returns Err (get_*_rules -> the handler's 500 "rules lookup failure"; increase_connection_count
            -> 500).  With agent_status dead, result["summary"]["failed"/"ok"] are {"error": ...}.
            {"op": "helper_exec", "name"}  the exec helper `name` (scenario field exec_helpers: {name: [argv...]}: a process
            whose image is `sh` until told otherwise) exec()s argv -- same pid, new image; returns when /proc/<pid>/exe changed.
            result["helpers"] = {name: {pid, exe_before, exe_after}}
AUDIT       uid (logon id), pid ("self" = the driver, "helper" = a spawned `sleep`, an exec helper's name, or a number),
            is_admin (1/0), dest_ip, dest_port

RESULT
  ok, error                   driver-level failure of the scenario (bad JSON, listener did not start, …)
  connections[i]              id, local_port, connect_error, error, responses[j] = {complete, status, raw (bytes),
                              eof/timeout when incomplete}, trailing (bytes after the last response), eof
  upstream[host]              list, in accept order, of {peer_port, nbytes, bytes (all raw bytes received),
                              requests [[start, head_end, end] offsets of each complete request], replies, closed}
                              -- connections and bytes are separate: the proxy opens the upstream connection
                              at accept time, so a refused request shows a connection with nbytes == 0
  expected_upstream           {host: n} connections the proxy must have opened (records found at connect time)
  audit_map                   [[port, record]] left in the stand-in audit map at the end
  trace                       [{"ev": "lookup", port, found} | {"ev": "remove", port, found, failed} | {"ev": "policy", …}]
  summary                     {"failed": [...], "ok": [...], "http_connection_count"} from
                              get_all_failed_connection_summary / get_all_connection_summary (sorted); entries carry
                              userName, userGroups, processFullPath, processCmdLine (= the claims the agent derived),
                              ip, port, responseStatus, count
  status_json                 (status_task_ms only, else None) {"failed": failedAuthenticateSummary, "ok":
                              proxyConnectionSummary (both sorted like `summary`), "timestamp", "has_failed_field",
                              "has_ok_field"} parsed from status.json after it was completely rewritten twice
                              following the last request (so it was computed after it); {"error": ...} on a 20 s timeout
  snapshots                   results of "snapshot" ops (label, audit_map, summary, status_json -- same two-rewrite wait)
  drained                     True when every upstream connection was accepted and closed before collection
  panics                      panic messages seen in the process during the scenario
  self_pid, helper_pid, proxy_port, stray_upstream
Files: <ctx.scratch>/e2e.<n>/{logs,events,keys}/, agent_stdout.log (the agent's console log), proxy-agent.json.

EXTENSIONS (added for C05/C14/C15; all optional, absent = the behaviour described above)
  REQUEST   gen_body {"len": n, "seed": s, "chunk_sizes": [..]|None}   after `raw` (which then is only the head,
            carrying Content-Length: n or Transfer-Encoding: chunked as the test wants) the driver sends n
            pattern bytes (gen_body_bytes(n, s)), plain or chunk-encoded with the given sizes (last repeats) --
            generated inside the driver, so 100 MiB bodies never pass through JSON.  The response is read WHILE
            the body is written; writing stops once a complete response has arrived.  Extra response keys:
            write_completed (bool), write_error, sent_body (body bytes handed to the socket).
            write_sizes [n..] + write_pause_ms (default 1)   deliver `raw` in TCP writes of these sizes (last
            repeats) with a flush and a pause between them (also switches to the concurrent write/read path).
            gen_body.abort_after: n   the client gives up after n body bytes (no chunked terminator, no answer awaited; response entry
            {complete: False, aborted: True}); the connection is then dropped at once.
            read_delay_ms: n   (non-pipelined connections) a slow reader: after the request has been written nothing is read from
            the socket for n ms.
            abort_after: n   (non-pipelined connections) read n bytes of the response, then ABANDON the connection: it is
            dropped at once, nothing is drained and no further request is sent; the response entry is {complete: False,
            aborted: True, read: bytes read, raw: its first 4 KiB}.
  REPLY     write_sizes [n..] + write_pause_ms   the same for a mock host's reply (adversarial frame boundaries:
            hyper's client sees the reply in these pieces).
  SCENARIO  upstream_capture: n   the mock hosts parse incrementally (no quadratic rescans, no 100 MiB copies):
            upstream[host][i]["bytes"] keeps only the first n bytes of the connection, "nbytes" is still the
            total, and "request_info" lists per complete request {start, head_end, end, head (bytes),
            body_len, body_crc32 (zlib.crc32 of the DECODED body), chunked, chunks}.  Reply "match" then sees
            the request head only.
            upstream_read_pause_ms: n   (with upstream_capture) a slow host: the mock sleeps n ms after every read of at most 256 KiB.
  helpers   gen_body_bytes(n, seed) -> bytes ; gen_body_crc32(n, seed) -> int ; head_only(raw) -> raw up to and
            including the blank line
"""
import base64
import json
import os
import shutil
import subprocess
import sys
from concurrent.futures import ThreadPoolExecutor

sys.path.insert(0, os.path.dirname(os.path.abspath(__file__)))
import vplib  # noqa: E402

WIRESERVER = "168.63.129.16:80"
HOSTGA = "168.63.129.16:32526"
IMDS = "169.254.169.254:80"
OTHER = "10.9.8.7:80"
LOCAL_OTHER = "127.0.0.1:18080"
SELF = "127.0.0.1:3080"
MOCKS = [WIRESERVER, HOSTGA, IMDS, OTHER, LOCAL_OTHER]
NOBODY_UID = 65534
MISSING_UID = 54321          # no such user in the sandbox's passwd

_NETNS = ("ip link set lo up && ip addr add 168.63.129.16/32 dev lo && ip addr add 169.254.169.254/32 dev lo "
          "&& ip addr add 10.9.8.7/32 dev lo && exec \"$0\"")
_counter = [0]


# ------------------------------------------------------------------------------------------
# builders
# ------------------------------------------------------------------------------------------
def http_request(method, target, headers=(), body=b"", version="HTTP/1.1", chunked=None, host="x"):
    """Raw request bytes.  headers: iterable of (name, value) sent in this order after Host (host=None: no Host
    line).  Content-Length is added when body is non-empty (or method is POST/PUT) and neither it nor
    Transfer-Encoding is among headers.  chunked=[sizes…]: send the body chunk-encoded with these sizes."""
    if isinstance(body, str):
        body = body.encode()
    lines = ["%s %s %s" % (method, target, version)]
    names = [k.lower() for k, _ in headers]
    if host is not None and "host" not in names:
        lines.append("Host: %s" % host)
    for k, v in headers:
        lines.append("%s: %s" % (k, v))
    out_body = body
    if chunked is not None:
        if "transfer-encoding" not in names:
            lines.append("Transfer-Encoding: chunked")
        out_body = b""
        pos, i = 0, 0
        while pos < len(body):
            n = max(1, chunked[min(i, len(chunked) - 1)]) if chunked else len(body)
            piece = body[pos:pos + n]
            out_body += b"%x\r\n" % len(piece) + piece + b"\r\n"
            pos += len(piece)
            i += 1
        out_body += b"0\r\n\r\n"
    elif (body or method in ("POST", "PUT")) and "content-length" not in names and "transfer-encoding" not in names:
        lines.append("Content-Length: %d" % len(body))
    return ("\r\n".join(lines) + "\r\n\r\n").encode("latin-1") + out_body


def gen_body_bytes(n, seed=0):
    """the body the driver generates for gen_body {"len": n, "seed": seed}: byte i = ((i % 251) + seed) % 256"""
    period = bytes(((j + seed) % 256) for j in range(251))
    return (period * (n // 251 + 1))[:n]


def gen_body_crc32(n, seed=0):
    import zlib
    return zlib.crc32(gen_body_bytes(n, seed)) & 0xFFFFFFFF


def head_only(raw):
    he = raw.find(b"\r\n\r\n")
    return raw if he < 0 else raw[:he + 4]


def req(raw, **knobs):
    d = {"raw_b64": base64.b64encode(raw).decode()}
    d.update(knobs)
    return d


def audit(dest, uid=0, pid="self", is_admin=None):
    ip, port = dest.rsplit(":", 1)
    return {"uid": uid, "pid": pid, "is_admin": (1 if uid == 0 else 0) if is_admin is None else int(is_admin),
            "dest_ip": ip, "dest_port": int(port)}


def conn(requests, audit=None, local_port=None, id=None, **knobs):
    d = {"requests": [r if isinstance(r, dict) else req(r) for r in requests], "audit": audit}
    if local_port is not None:
        d["local_port"] = local_port
    if id is not None:
        d["id"] = id
    d.update(knobs)
    return d


def scenario(name, connections, rules=None, key=None, **knobs):
    d = {"name": name, "connections": connections}
    if rules is not None:
        d["rules"] = rules
    if key is not None:
        d["key"] = key
    d.update(knobs)
    return d


# ------------------------------------------------------------------------------------------
# raw HTTP parsing
# ------------------------------------------------------------------------------------------
def _dechunk(raw, pos):
    body = b""
    while True:
        le = raw.find(b"\r\n", pos)
        if le < 0:
            return None
        try:
            size = int(raw[pos:le].split(b";")[0].strip(), 16)
        except ValueError:
            return None
        pos = le + 2
        if size == 0:
            while True:
                te = raw.find(b"\r\n", pos)
                if te < 0:
                    return None
                if te == pos:
                    return body, pos + 2
                pos = te + 2
        if len(raw) < pos + size + 2:
            return None
        body += raw[pos:pos + size]
        pos += size + 2


def parse_http(raw, head_response=False):
    """Parse ONE message at the start of raw.  Returns None when the head is incomplete, else a dict:
    start_line (str), kind 'request'|'response', status (int|None), reason, method, target, version,
    headers [(name, value)] in wire order (names as sent), body (bytes, chunk-decoded), chunked (bool),
    complete (bool), consumed (bytes of raw used), header(name) -> list of values (case-insensitive)."""
    he = raw.find(b"\r\n\r\n")
    if he < 0:
        return None
    lines = raw[:he].decode("latin-1").split("\r\n")
    start = lines[0]
    headers = []
    for l in lines[1:]:
        k, sep, v = l.partition(":")
        headers.append((k, v.strip() if sep else None))
    m = {"start_line": start, "headers": headers, "status": None, "reason": None, "method": None, "target": None,
         "version": None}
    parts = start.split(" ", 2)
    if start.startswith("HTTP/"):
        m["kind"] = "response"
        m["version"] = parts[0]
        try:
            m["status"] = int(parts[1])
        except (IndexError, ValueError):
            pass
        m["reason"] = parts[2] if len(parts) > 2 else ""
    else:
        m["kind"] = "request"
        m["method"] = parts[0]
        m["target"] = parts[1] if len(parts) > 1 else None
        m["version"] = parts[2] if len(parts) > 2 else None

    def header(name, _h=headers):
        return [v for k, v in _h if k.lower() == name.lower()]
    m["header"] = header
    te = ",".join(v or "" for v in header("transfer-encoding")).lower()
    cl = header("content-length")
    pos = he + 4
    m["chunked"] = "chunked" in te
    m["complete"] = True
    st = m["status"]
    if m["kind"] == "response" and (head_response or (st is not None and (100 <= st < 200 or st in (204, 304)))):
        m["body"] = b""
    elif m["chunked"]:
        r = _dechunk(raw, pos)
        if r is None:
            m["body"], m["complete"] = raw[pos:], False
            pos = len(raw)
        else:
            m["body"], pos = r
    elif cl:
        try:
            n = int(cl[0])
        except ValueError:
            n = 0
        m["body"] = raw[pos:pos + n]
        m["complete"] = len(raw) >= pos + n
        pos = min(len(raw), pos + n)
    elif m["kind"] == "response":
        m["body"] = raw[pos:]
        pos = len(raw)
    else:
        m["body"] = b""
    m["consumed"] = pos
    return m


def parse_http_all(raw):
    out = []
    while raw:
        m = parse_http(raw)
        if m is None or m["consumed"] == 0:
            break
        out.append(m)
        raw = raw[m["consumed"]:]
    return out


def upstream_messages(result, host):
    """per accepted connection at `host`: the parsed complete requests the mock saw"""
    out = []
    for c in result["upstream"].get(host, []):
        out.append([parse_http(c["bytes"][s:e]) for s, _, e in c["requests"]])
    return out


def statuses(result):
    return [[r.get("status") for r in c.get("responses", [])] for c in result.get("connections", [])]


def jsonable(o):
    if isinstance(o, bytes):
        return {"b64": base64.b64encode(o).decode()}
    if isinstance(o, dict):
        return {str(k): jsonable(v) for k, v in o.items() if not callable(v)}
    if isinstance(o, (list, tuple)):
        return [jsonable(x) for x in o]
    return o


# ------------------------------------------------------------------------------------------
# running
# ------------------------------------------------------------------------------------------
def _decode(o):
    """replace every "<name>_b64": str by "<name>": bytes, recursively"""
    if isinstance(o, dict):
        d = {}
        for k, v in o.items():
            if k.endswith("_b64") and isinstance(v, str):
                d[k[:-4]] = base64.b64decode(v)
            else:
                d[k] = _decode(v)
        return d
    if isinstance(o, list):
        return [_decode(x) for x in o]
    return o


def build(ctx):
    """build the driver (idempotent per ctx); returns the path of the built binary"""
    path = getattr(ctx, "_e2e_bin", None)
    if path is None:
        path = vplib.cargo_build(ctx, "harness", ["e2e"])["e2e"]
        ctx._e2e_bin = path
    return path


def _run_shard(ctx, binary, lines, timeout, env):
    _counter[0] += 1
    d = os.path.join(ctx.scratch, "e2e.%d.%d" % (os.getpid(), _counter[0]))
    os.makedirs(d, exist_ok=True)
    # a private copy of the executable: the agent reads proxy-agent.json from beside its own exe, and
    # concurrent runs (other properties, other shards) must not share that file
    exe = os.path.join(d, "e2e")
    try:
        os.link(binary, exe)
    except OSError:
        shutil.copy2(binary, exe)
    e = dict(os.environ)
    e.update({"E2E_SCRATCH": d, "E2E_MOCKS": ",".join(MOCKS), "RUST_BACKTRACE": "0"})
    if env:
        e.update(env)
    p = subprocess.run(["unshare", "-n", "sh", "-c", _NETNS, exe], input="".join(l + "\n" for l in lines),
                       capture_output=True, text=True, timeout=timeout, env=e)
    out = [l for l in p.stdout.split("\n") if l.strip()]
    res = []
    for l in out:
        try:
            res.append(_decode(json.loads(l)))
        except ValueError:
            raise RuntimeError("e2e driver printed a non-JSON line: %r" % l[:300])
    if res and res[0].get("fatal"):
        raise RuntimeError("e2e driver: %s %s" % (res[0]["fatal"], res[0].get("detail")))
    if len(res) != len(lines):
        raise RuntimeError("e2e driver exited %s after %d of %d scenarios; stderr: %s" % (
            p.returncode, len(res), len(lines), p.stderr[-3000:]))
    for r in res:
        r["scratch"] = d
    return res


def run_scenarios(ctx, scenarios, timeout=600, shards=None, env=None):
    """Run the scenarios on the real proxy; returns the result dicts in input order.  `shards` driver
    processes run in parallel, each in its own network namespace (default: 1 up to 60 scenarios, else 4)."""
    binary = build(ctx)
    scs = []
    for i, s in enumerate(scenarios):
        s = dict(s)
        s.setdefault("proxy_port", 20000 + i % 10000)
        scs.append(json.dumps(s))
    if not scs:
        return []
    if shards is None:
        shards = 1 if len(scs) <= 60 else 4
    shards = max(1, min(shards, len(scs)))
    parts = [list(range(k, len(scs), shards)) for k in range(shards)]
    with ThreadPoolExecutor(max_workers=shards) as ex:
        outs = list(ex.map(lambda ix: _run_shard(ctx, binary, [scs[i] for i in ix], timeout, env), parts))
    res = [None] * len(scs)
    for ix, out in zip(parts, outs):
        for i, r in zip(ix, out):
            res[i] = r
    return res


if __name__ == "__main__":
    # smoke: python3 tools/e2e.py  -> runs two scenarios and prints the results
    ctx = vplib.Ctx("E2E", "quick", 1)
    try:
        get = http_request("GET", "/machine?comp=goalstate", [("x-ms-version", "2012-11-30")])
        demo = [
            scenario("attributed root caller to WireServer", [conn([get], audit=audit(WIRESERVER, uid=0))]),
            scenario("direct connection (no record)", [conn([get])]),
        ]
        for r in run_scenarios(ctx, demo):
            print(json.dumps(jsonable(r), indent=1))
    finally:
        ctx.cleanup()
