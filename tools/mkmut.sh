#!/bin/sh
# tools/mkmut.sh <ID> : scratch worktree /tmp/mut-<ID> of /repo HEAD (with warm target dir) + the property text
set -e
id="$1"; d="/tmp/mut-$id"
[ -d "$d" ] && { echo "$d exists"; exit 0; }
git -C /repo worktree add --detach "$d" HEAD >/dev/null 2>&1
cp -a /repo/target "$d/target"
mkdir -p "/tmp/mut-$id-out"
python3 - "$id" <<'PY'
import json,sys
i=sys.argv[1]
for l in open('/verif/properties.jsonl'):
    p=json.loads(l)
    if p['id']==i:
        keep={k:p[k] for k in ('id','title','statement','quantifier','why_tests_cant','anchors')}
        open('/tmp/mut-%s-out/property.json'%i,'w').write(json.dumps(keep,indent=1))
PY
echo "$d ready"
